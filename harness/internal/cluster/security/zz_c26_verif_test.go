//go:build verif

package security

// C26 - Nonce-protected cluster requests cannot be replayed.
//
// Statement: every cluster request protected by an HMAC plus nonce (replication sync
// handshake, forwarded applies, cache invalidation, edge-sync uploads) is accepted at
// most once for a given sender and nonce, at whatever times within the accepted
// clock-skew window the original and the replay arrive, and is rejected once its
// timestamp is outside that window.
//
// The (timestamp tolerance, nonce TTL) pair of every message type and the
// validate -> track sequencing are read from the current call sites by
// /verif/overlaygen/c26_pairs.py (verifC26Sites); this file replays exactly that
// sequence with the real validators and the real NonceCache under a fake clock.

import (
	"fmt"
	"sort"
	"strings"
	"testing"
	"time"

	"github.com/basekick-labs/arc/internal/verifkit"
	"pgregory.net/rapid"
)

// the nonce cache entry expires while the signed timestamp is still fresh
const kfC26TTL = "C26-nonce-ttl-shorter-than-timestamp-lifetime"

const (
	c26Secret  = "verif-cluster-secret"
	c26Cluster = "verif-cluster"
	c26Hub     = "hub-1"
	c26Sec     = int64(time.Second)
	c26Base    = int64(1790000000) // unix seconds
)

type c26Msg struct {
	Type    string `json:"type"`
	Sender  string `json:"sender"`
	Nonce   string `json:"nonce"`
	TS      int64  `json:"signed_ts"`
	Payload string `json:"payload"`
	MAC     string `json:"-"`
}

func (m *c26Msg) key() string {
	return m.Type + "|" + m.Sender + "|" + m.Nonce + "|" + fmt.Sprint(m.TS) + "|" + m.Payload
}

func c26Sign(m *c26Msg) error {
	var err error
	switch m.Type {
	case "replicate-sync":
		m.MAC = ComputeReplicateSyncHMAC(c26Secret, m.Nonce, m.Sender, c26Cluster, uint64(len(m.Payload)), m.TS)
	case "forward-apply":
		m.MAC = ComputeForwardHMAC(c26Secret, m.Nonce, m.Sender, c26Cluster, []byte(m.Payload), m.TS)
	case "cache-invalidate":
		m.MAC = ComputeCacheInvalidateHMAC(c26Secret, m.Nonce, m.Sender, c26Cluster, m.TS)
	case "sync-file":
		m.MAC, err = ComputeSyncFileHMAC(c26Secret, m.Nonce, m.Sender, c26Hub, "db/cpu/"+m.Payload+".parquet", strings.Repeat("ab", 32), m.TS)
	case "sync-reconcile":
		m.MAC, err = ComputeSyncReconcileHMAC(c26Secret, m.Nonce, m.Sender, c26Hub, []byte(m.Payload), m.TS)
	default:
		err = fmt.Errorf("unknown message type %q", m.Type)
	}
	return err
}

// c26Deliver runs the receive path of one message exactly as its call site
// sequences it (asserted against the source by c26_pairs.py): validator with the
// site's tolerance, then - only if it passed - the replay-tracking call keyed by the
// MAC-bound (sender, nonce). Returns true when the request is accepted.
func c26Deliver(nc *NonceCache, m *c26Msg, tol time.Duration) bool {
	switch m.Type {
	case "replicate-sync": // internal/cluster/coordinator.go handleReplicateSync
		if ValidateReplicateSyncHMAC(c26Secret, m.Nonce, m.Sender, c26Cluster, uint64(len(m.Payload)), m.TS, m.MAC, tol) != nil {
			return false
		}
		return nc.Track(m.Sender, m.Nonce)
	case "forward-apply": // internal/cluster/forward_apply.go handleForwardApply
		if ValidateForwardHMAC(c26Secret, m.Nonce, m.Sender, c26Cluster, []byte(m.Payload), m.TS, m.MAC, tol) != nil {
			return false
		}
		return nc.Track(m.Sender, m.Nonce)
	case "cache-invalidate": // internal/api/cache_invalidate.go handle
		if ValidateCacheInvalidateHMAC(c26Secret, m.Nonce, m.Sender, c26Cluster, m.TS, m.MAC, tol) != nil {
			return false
		}
		return nc.Track(m.Sender, m.Nonce)
	case "sync-file": // internal/api/edgesync.go receiveFile
		return ValidateSyncFileHMACWithReplay(nc, c26Secret, m.Nonce, m.Sender, c26Hub, "db/cpu/"+m.Payload+".parquet", strings.Repeat("ab", 32), m.TS, m.MAC, tol) == nil
	case "sync-reconcile": // internal/api/edgesync.go reconcile
		return ValidateSyncReconcileHMACWithReplay(nc, c26Secret, m.Nonce, m.Sender, c26Hub, []byte(m.Payload), m.TS, m.MAC, tol) == nil
	}
	return false
}

func c26SitesOf(cache string) []verifC26Site {
	var out []verifC26Site
	for _, s := range verifC26Sites {
		if s.Cache == cache {
			out = append(out, s)
		}
	}
	return out
}

func c26Caches() []string {
	seen := map[string]bool{}
	var out []string
	for _, s := range verifC26Sites {
		if !seen[s.Cache] {
			seen[s.Cache] = true
			out = append(out, s.Cache)
		}
	}
	return out
}

type c26Event struct {
	At  int64 // clock, unix ns
	Msg int   // index into msgs
	Why string
}

func c26Fmt(ns int64) string {
	return time.Unix(0, ns).UTC().Format("15:04:05.000000000")
}

func c26InWindow(nowNs, ts int64, tol time.Duration) bool {
	d := nowNs/c26Sec - ts // the validators work on whole seconds (time.Now().Unix())
	if d < 0 {
		d = -d
	}
	return d <= int64(tol/time.Second)
}

// c26Frac draws a sub-second offset with mass at 0, the last nanosecond and the middle.
func c26Frac(t *rapid.T, label string) int64 {
	switch rapid.IntRange(0, 4).Draw(t, label+"Kind") {
	case 0:
		return 0
	case 1:
		return c26Sec - 1
	case 2:
		return c26Sec / 2
	}
	return rapid.Int64Range(0, c26Sec-1).Draw(t, label)
}

// c26Delay draws a replay delay (ns after the first receipt) with mass at the nonce
// TTL and at twice the tolerance (+-1 s, +-1 ns), and at the last instant the signed
// timestamp is still fresh.
func c26Delay(t *rapid.T, tol, ttl time.Duration, t0, ts int64) (int64, string) {
	pm := int64(rapid.IntRange(-1, 1).Draw(t, "pm"))
	unit := c26Sec
	us := "s"
	if rapid.Bool().Draw(t, "pmNs") {
		unit, us = 1, "ns"
	}
	switch rapid.IntRange(0, 7).Draw(t, "delayKind") {
	case 0:
		return rapid.Int64Range(0, 2*c26Sec).Draw(t, "immediate"), "immediately"
	case 1:
		return int64(ttl) + pm*unit, fmt.Sprintf("TTL%+d%s", pm, us)
	case 2:
		return 2*int64(tol) + pm*unit, fmt.Sprintf("2*tolerance%+d%s", pm, us)
	case 3:
		return int64(tol) + pm*unit, fmt.Sprintf("tolerance%+d%s", pm, us)
	case 4: // last instant at which the signed timestamp is still inside the window (+-)
		edge := (ts+int64(tol/time.Second)+1)*c26Sec - 1
		return edge - t0 + pm*unit, fmt.Sprintf("window-edge%+d%s", pm, us)
	case 5:
		return 2*int64(tol) + c26Sec + pm*unit, fmt.Sprintf("2*tolerance+1s%+d%s", pm, us)
	}
	return rapid.Int64Range(0, 3*int64(ttl)).Draw(t, "delay"), "uniform"
}

func TestVerifC26_ReplayTimeline(t *testing.T) {
	defer VerifSetClock(time.Time{})
	if len(verifC26Sites) == 0 {
		t.Fatalf("harness: no nonce-protected call sites extracted")
	}
	caches := c26Caches()
	excl := verifkit.Excluded(kfC26TTL)
	rapid.Check(t, func(t *rapid.T) {
		cache := caches[rapid.IntRange(0, len(caches)-1).Draw(t, "cache")]
		sites := c26SitesOf(cache)
		site := sites[rapid.IntRange(0, len(sites)-1).Draw(t, "site")]
		tol, ttl := site.Tolerance, site.TTL
		tolSec := int64(tol / time.Second)

		t0 := (c26Base+rapid.Int64Range(0, 1_000_000).Draw(t, "t0sec"))*c26Sec + c26Frac(t, "t0frac")
		// the cache exists before the first receipt (lastEvict starts at construction)
		pre := []int64{0, 30 * c26Sec, 61 * c26Sec, 1000 * c26Sec}[rapid.IntRange(0, 3).Draw(t, "cacheAge")]
		VerifSetClock(time.Unix(0, t0-pre))
		nc := NewNonceCache(ttl)

		// signed-timestamp offset: [-T-2s, T+2s] with mass at +-T and 0
		var delta int64
		switch rapid.IntRange(0, 5).Draw(t, "deltaKind") {
		case 0:
			delta = 0
		case 1:
			delta = tolSec + int64(rapid.IntRange(-2, 2).Draw(t, "dEdge"))
		case 2:
			delta = -tolSec + int64(rapid.IntRange(-2, 2).Draw(t, "dEdge"))
		default:
			delta = rapid.Int64Range(-tolSec-2, tolSec+2).Draw(t, "delta")
		}
		senders := []string{"node-a", "node-b"}
		nonces := []string{"4e6f6e6365", "6f74686572"}
		msgs := []*c26Msg{{Type: site.Type, Sender: senders[0], Nonce: nonces[0], TS: t0/c26Sec + delta, Payload: "p0"}}
		events := []c26Event{{At: t0, Msg: 0, Why: "first receipt"}}
		for i, n := 0, rapid.IntRange(1, 3).Draw(t, "replays"); i < n; i++ {
			d, why := c26Delay(t, tol, ttl, t0, msgs[0].TS)
			if d < 0 {
				d = 0
			}
			events = append(events, c26Event{At: t0 + d, Msg: 0, Why: "replay after " + why})
		}
		// other traffic in the same cache: same/other sender, same/other nonce, either
		// message type of the cache; drives the lazy eviction sweep and key collisions
		for i, n := 0, rapid.IntRange(0, 4).Draw(t, "noise"); i < n; i++ {
			s := sites[rapid.IntRange(0, len(sites)-1).Draw(t, "nSite")]
			at := t0 + rapid.Int64Range(0, 3*int64(ttl)).Draw(t, "nAt")
			m := &c26Msg{Type: s.Type, Sender: senders[rapid.IntRange(0, 1).Draw(t, "nSender")],
				Nonce: nonces[rapid.IntRange(0, 1).Draw(t, "nNonce")], Payload: fmt.Sprintf("n%d", i),
				TS: at/c26Sec + rapid.Int64Range(-tolSec-1, tolSec+1).Draw(t, "nDelta")}
			msgs = append(msgs, m)
			events = append(events, c26Event{At: at, Msg: len(msgs) - 1, Why: "other traffic"})
			if rapid.Bool().Draw(t, "nReplay") {
				d, why := c26Delay(t, tol, ttl, at, m.TS)
				if d < 0 {
					d = 0
				}
				events = append(events, c26Event{At: at + d, Msg: len(msgs) - 1, Why: "other traffic replayed after " + why})
			}
		}
		tolOf := map[string]time.Duration{}
		for _, s := range sites {
			tolOf[s.Type] = s.Tolerance
		}
		for _, m := range msgs {
			if err := c26Sign(m); err != nil {
				t.Fatalf("harness: sign: %v", err)
			}
		}
		sort.SliceStable(events, func(i, j int) bool { return events[i].At < events[j].At })

		accepts := make([]int, len(msgs))
		firstAccept := make([]int64, len(msgs))
		var log []string
		nontrivial := false
		for _, ev := range events {
			m := msgs[ev.Msg]
			mt := tolOf[m.Type]
			inWin := c26InWindow(ev.At, m.TS, mt)
			if excl && accepts[ev.Msg] > 0 && inWin && ev.At-firstAccept[ev.Msg] >= int64(mt) {
				// shape of the open finding: replay at least one tolerance after the
				// accepted original while the signed timestamp is still fresh
				verifkit.CountExcluded(kfC26TTL)
				continue
			}
			VerifSetClock(time.Unix(0, ev.At))
			ok := c26Deliver(nc, m, mt)
			log = append(log, fmt.Sprintf("%s %-16s %s/%s ts=now%+ds (%s) -> %v", c26Fmt(ev.At), m.Type, m.Sender, m.Nonce[:4],
				m.TS-ev.At/c26Sec, ev.Why, map[bool]string{true: "ACCEPTED", false: "rejected"}[ok]))
			if ok && !inWin {
				t.Fatalf("VERIF-FAIL class=C26/accepted-outside-window type=%s tolerance=%v ttl=%v: accepted with |now-ts|=%ds\ntimeline (t0=%s):\n  %s",
					m.Type, mt, ttl, ev.At/c26Sec-m.TS, c26Fmt(t0), strings.Join(log, "\n  "))
			}
			if accepts[ev.Msg] > 0 && inWin {
				nontrivial = true
			}
			if ok {
				accepts[ev.Msg]++
				if accepts[ev.Msg] == 1 {
					firstAccept[ev.Msg] = ev.At
				}
				if accepts[ev.Msg] > 1 {
					t.Fatalf("VERIF-FAIL class=C26/replay-accepted type=%s (tolerance %s=%v, nonce TTL %s=%v, %s): the same signed request was accepted twice, %v apart\ntimeline (t0=%s):\n  %s",
						m.Type, site.TolExpr, mt, site.TTLExpr, ttl, site.Origin, time.Duration(ev.At-firstAccept[ev.Msg]), c26Fmt(t0), strings.Join(log, "\n  "))
				}
			}
		}
		verifkit.Eval()
		verifkit.Class("type/" + site.Type)
		if nontrivial {
			verifkit.NonTrivial(strings.Join(log, "|"))
			verifkit.Class("replay-inside-window")
			if verifkit.SampleCount() < 3 {
				verifkit.Sample(map[string]any{"type": site.Type, "tolerance": tol.String(), "nonce_ttl": ttl.String(), "timeline": log})
			}
		}
	})
}

// Minimal timeline for every call site: a request whose timestamp is dated one
// tolerance into the future is accepted, and accepted AGAIN exactly one nonce TTL
// later (its cache entry has expired, its timestamp is still fresh).
func TestVerifKF_C26_ttl_shorter_than_timestamp_lifetime(t *testing.T) {
	defer VerifSetClock(time.Time{})
	var hit []string
	for _, site := range verifC26Sites {
		t0 := c26Base * c26Sec
		VerifSetClock(time.Unix(0, t0))
		nc := NewNonceCache(site.TTL)
		m := &c26Msg{Type: site.Type, Sender: "node-a", Nonce: "4e6f6e6365", TS: c26Base + int64(site.Tolerance/time.Second), Payload: "p0"}
		if err := c26Sign(m); err != nil {
			t.Fatalf("harness: %v", err)
		}
		a1 := c26Deliver(nc, m, site.Tolerance)
		VerifSetClock(time.Unix(0, t0+int64(site.TTL)))
		a2 := c26Deliver(nc, m, site.Tolerance)
		t.Logf("%s: tolerance=%v ttl=%v first=%v replay(+%v)=%v", site.Type, site.Tolerance, site.TTL, a1, site.TTL, a2)
		if a1 && a2 {
			hit = append(hit, site.Type)
		}
	}
	verifkit.KnownFinding(kfC26TTL, len(hit) > 0, "request signed with ts=now+tolerance accepted at t0 and again at t0+TTL for: "+strings.Join(hit, ", "))
}
