//go:build verif

package security

// C26 - Nonce-protected cluster requests cannot be replayed.
//
// Statement: every cluster request protected by an HMAC plus nonce (replication sync
// handshake, forwarded applies, cache invalidation, edge-sync uploads) is accepted at
// most once for a given sender and nonce, at whatever times within the accepted
// clock-skew window the original and the replay arrive, and is rejected once its
// timestamp is outside that window.
//
// The (timestamp tolerance, nonce TTL) pair of every message type and the
// validate -> track sequencing are read from the current call sites by
// /verif/overlaygen/c26_pairs.py (verifC26Sites); this file replays exactly that
// sequence with the real validators and the real NonceCache under a fake clock.

import (
	"fmt"
	"strings"
	"testing"
	"time"

	"github.com/basekick-labs/arc/internal/verifkit"
	"github.com/basekick-labs/arc/internal/verifkit/replaytl"
	"pgregory.net/rapid"
)

// the nonce cache entry expires while the signed timestamp is still fresh
const kfC26TTL = "C26-nonce-ttl-shorter-than-timestamp-lifetime"

const (
	c26Secret  = "verif-cluster-secret"
	c26Cluster = "verif-cluster"
	c26Hub     = "hub-1"
	c26Base    = int64(1790000000) // unix seconds
)

type c26Msg = replaytl.Msg

func c26Sign(m *c26Msg) error {
	var err error
	switch m.Type {
	case "replicate-sync":
		m.MAC = ComputeReplicateSyncHMAC(c26Secret, m.Nonce, m.Sender, c26Cluster, uint64(len(m.Payload)), m.TS)
	case "forward-apply":
		m.MAC = ComputeForwardHMAC(c26Secret, m.Nonce, m.Sender, c26Cluster, []byte(m.Payload), m.TS)
	case "cache-invalidate":
		m.MAC = ComputeCacheInvalidateHMAC(c26Secret, m.Nonce, m.Sender, c26Cluster, m.TS)
	case "sync-file":
		m.MAC, err = ComputeSyncFileHMAC(c26Secret, m.Nonce, m.Sender, c26Hub, "db/cpu/"+m.Payload+".parquet", strings.Repeat("ab", 32), m.TS)
	case "sync-reconcile":
		m.MAC, err = ComputeSyncReconcileHMAC(c26Secret, m.Nonce, m.Sender, c26Hub, []byte(m.Payload), m.TS)
	default:
		err = fmt.Errorf("unknown message type %q", m.Type)
	}
	return err
}

// c26Deliver runs the receive path of one message exactly as its call site
// sequences it (asserted against the source by c26_pairs.py): validator with the
// site's tolerance, then - only if it passed - the replay-tracking call keyed by the
// MAC-bound (sender, nonce). Returns true when the request is accepted.
func c26Deliver(nc *NonceCache, m *c26Msg, tol time.Duration) bool {
	switch m.Type {
	case "replicate-sync": // internal/cluster/coordinator.go handleReplicateSync
		if ValidateReplicateSyncHMAC(c26Secret, m.Nonce, m.Sender, c26Cluster, uint64(len(m.Payload)), m.TS, m.MAC, tol) != nil {
			return false
		}
		return nc.Track(m.Sender, m.Nonce)
	case "forward-apply": // internal/cluster/forward_apply.go handleForwardApply
		if ValidateForwardHMAC(c26Secret, m.Nonce, m.Sender, c26Cluster, []byte(m.Payload), m.TS, m.MAC, tol) != nil {
			return false
		}
		return nc.Track(m.Sender, m.Nonce)
	case "cache-invalidate": // internal/api/cache_invalidate.go handle
		if ValidateCacheInvalidateHMAC(c26Secret, m.Nonce, m.Sender, c26Cluster, m.TS, m.MAC, tol) != nil {
			return false
		}
		return nc.Track(m.Sender, m.Nonce)
	case "sync-file": // internal/api/edgesync.go receiveFile
		return ValidateSyncFileHMACWithReplay(nc, c26Secret, m.Nonce, m.Sender, c26Hub, "db/cpu/"+m.Payload+".parquet", strings.Repeat("ab", 32), m.TS, m.MAC, tol) == nil
	case "sync-reconcile": // internal/api/edgesync.go reconcile
		return ValidateSyncReconcileHMACWithReplay(nc, c26Secret, m.Nonce, m.Sender, c26Hub, []byte(m.Payload), m.TS, m.MAC, tol) == nil
	}
	return false
}

func c26Sites() []replaytl.Site {
	out := make([]replaytl.Site, 0, len(verifC26Sites))
	for _, s := range verifC26Sites {
		out = append(out, replaytl.Site{Type: s.Type, Cache: s.Cache, Origin: s.Origin, Tolerance: s.Tolerance, TTL: s.TTL, TolExpr: s.TolExpr, TTLExpr: s.TTLExpr})
	}
	return out
}

func TestVerifC26_ReplayTimeline(t *testing.T) {
	defer VerifSetClock(time.Time{})
	sites := c26Sites()
	if len(sites) == 0 {
		t.Fatalf("harness: no nonce-protected call sites extracted")
	}
	excl := verifkit.Excluded(kfC26TTL)
	rapid.Check(t, func(t *rapid.T) {
		tl := replaytl.Gen(t, sites, nil)
		for _, m := range tl.Msgs {
			if err := c26Sign(m); err != nil {
				t.Fatalf("harness: sign: %v", err)
			}
		}
		VerifSetClock(time.Unix(0, tl.CacheBorn))
		nc := NewNonceCache(tl.Site.TTL)
		res := tl.Run(excl, func(ns int64) { VerifSetClock(time.Unix(0, ns)) },
			func(m *c26Msg, tol time.Duration) bool { return c26Deliver(nc, m, tol) }, nil)
		for i := 0; i < res.Excluded; i++ {
			verifkit.CountExcluded(kfC26TTL)
		}
		if res.FailClass != "" {
			t.Fatalf("VERIF-FAIL class=C26/%s %s\n%s", res.FailClass, res.FailText, res.Describe(tl))
		}
		verifkit.Eval()
		verifkit.Class("type/" + tl.Site.Type)
		if res.NonTrivial {
			verifkit.NonTrivial(strings.Join(res.Log, "|"))
			verifkit.Class("replay-inside-window/" + tl.Site.Type)
			if verifkit.SampleCount() < 3 {
				verifkit.Sample(map[string]any{"type": tl.Site.Type, "tolerance": tl.Site.Tolerance.String(), "nonce_ttl": tl.Site.TTL.String(), "timeline": res.Log})
			}
		}
	})
}

// Minimal timeline for every call site: a request whose timestamp is dated one
// tolerance into the future is accepted, and accepted AGAIN exactly one nonce TTL
// later (its cache entry has expired, its timestamp is still fresh).
func TestVerifKF_C26_ttl_shorter_than_timestamp_lifetime(t *testing.T) {
	defer VerifSetClock(time.Time{})
	var hit []string
	for _, site := range verifC26Sites {
		t0 := c26Base * int64(time.Second)
		VerifSetClock(time.Unix(0, t0))
		nc := NewNonceCache(site.TTL)
		m := &c26Msg{Type: site.Type, Sender: "node-a", Nonce: "4e6f6e6365", TS: c26Base + int64(site.Tolerance/time.Second), Payload: "p0"}
		if err := c26Sign(m); err != nil {
			t.Fatalf("harness: %v", err)
		}
		a1 := c26Deliver(nc, m, site.Tolerance)
		VerifSetClock(time.Unix(0, t0+int64(site.TTL)))
		a2 := c26Deliver(nc, m, site.Tolerance)
		t.Logf("%s: tolerance=%v ttl=%v first=%v replay(+%v)=%v", site.Type, site.Tolerance, site.TTL, a1, site.TTL, a2)
		if a1 && a2 {
			hit = append(hit, site.Type)
		}
	}
	verifkit.KnownFinding(kfC26TTL, len(hit) > 0, "request signed with ts=now+tolerance accepted at t0 and again at t0+TTL for: "+strings.Join(hit, ", "))
}
