//go:build verif

package raft

// Shared engine for the C22 and C23 checks: command model, command constructors,
// the stateful random generator, the reflection-based canonical dump of
// ClusterFSM and the snapshot/restore plumbing. Everything is prefixed c22 so
// it cannot clash with other harness files overlaid into this package.

import (
	"bytes"
	"encoding/json"
	"flag"
	"fmt"
	"io"
	"os"
	"reflect"
	"sort"
	"strconv"
	"strings"
	"time"
	"unsafe"

	"github.com/hashicorp/raft"
	"github.com/rs/zerolog"
	"pgregory.net/rapid"

	"github.com/basekick-labs/arc/internal/verifkit"
)

// c22EnumShards: number of shards the exhaustive enumerations are split into
// (by first symbol); the shard number comes from VERIF_SHARD.
var c22EnumShards = flag.Int("c22.enumshards", 1, "verif: number of shards for the exhaustive enumerations")

// ---------------------------------------------------------------- command model

// c22Member is one operation of a CommandBatchFileOps payload.
type c22Member struct {
	Label   string      `json:"label"`
	Type    CommandType `json:"type"`
	Payload string      `json:"payload"`
}

// c22Cmd is one committed log entry (or a read-only pseudo step).
type c22Cmd struct {
	Label   string      `json:"label"`
	Type    CommandType `json:"type"`
	Payload string      `json:"payload"`
	Index   uint64      `json:"index"`
	Raw     *string     `json:"raw,omitempty"`     // whole log.Data when the outer Command itself is malformed
	Members []c22Member `json:"members,omitempty"` // batch members, for the one-by-one oracle
	Batch   bool        `json:"batch,omitempty"`
	Key     string      `json:"key,omitempty"`  // entity the command touches (non-triviality rule)
	Read    bool        `json:"read,omitempty"` // GetFilesPaginated on the main FSM only (fills keysCache)
}

func c22LogData(typ CommandType, payload string) []byte {
	b, err := json.Marshal(Command{Type: typ, Payload: []byte(payload)})
	if err != nil {
		panic(err)
	}
	return b
}

func (c c22Cmd) data() []byte {
	if c.Raw != nil {
		return []byte(*c.Raw)
	}
	return c22LogData(c.Type, c.Payload)
}

// c22Apply feeds one entry through ClusterFSM.Apply exactly as hashicorp/raft does.
func c22Apply(f *ClusterFSM, c c22Cmd) error {
	if c.Read {
		_, _, _ = f.GetFilesPaginated("", 2)
		return nil
	}
	return c22ApplyRaw(f, c.data(), c.Index)
}

func c22ApplyRaw(f *ClusterFSM, data []byte, index uint64) error {
	res := f.Apply(&raft.Log{Index: index, Term: 1, Type: raft.LogCommand, Data: data})
	if res == nil {
		return nil
	}
	if err, ok := res.(error); ok {
		return err
	}
	panic(fmt.Sprintf("Apply returned a non-error, non-nil value: %#v", res))
}

func c22NewFSM() *ClusterFSM { return NewClusterFSM(zerolog.Nop()) }

func c22JSON(v any) string {
	b, err := json.Marshal(v)
	if err != nil {
		panic(err)
	}
	return string(b)
}

func c22Mk(label string, typ CommandType, payload any, key string) c22Cmd {
	var p string
	switch x := payload.(type) {
	case c22RawPayload:
		p = string(x)
	default:
		p = c22JSON(payload)
	}
	return c22Cmd{Label: label, Type: typ, Payload: p, Key: key}
}

// c22RawPayload is payload text used verbatim (malformed payloads).
type c22RawPayload string

func c22MkBatch(label string, members []c22Member) c22Cmd {
	ops := make([]BatchFileOp, len(members))
	for i, m := range members {
		ops[i] = BatchFileOp{Type: m.Type, Payload: []byte(m.Payload)}
	}
	c := c22Mk(label, CommandBatchFileOps, BatchFileOpsPayload{Ops: ops}, "batch")
	c.Members = members
	c.Batch = true
	return c
}

func c22History(cmds []c22Cmd, results []error) string {
	var b strings.Builder
	for i, c := range cmds {
		res := ""
		if i < len(results) {
			if results[i] != nil {
				res = " -> ERR " + results[i].Error()
			} else {
				res = " -> ok"
			}
		}
		if c.Raw != nil {
			fmt.Fprintf(&b, "  [%d] idx=%d %s raw=%q%s\n", i, c.Index, c.Label, *c.Raw, res)
		} else {
			fmt.Fprintf(&b, "  [%d] idx=%d %s type=%d payload=%s%s\n", i, c.Index, c.Label, c.Type, c.Payload, res)
		}
	}
	return b.String()
}

func c22SeqKey(cmds []c22Cmd) string {
	var b strings.Builder
	for _, c := range cmds {
		b.WriteString(strconv.FormatUint(c.Index, 10))
		b.WriteByte('|')
		b.WriteString(strconv.Itoa(int(c.Type)))
		b.WriteByte('|')
		if c.Raw != nil {
			b.WriteString(*c.Raw)
		} else {
			b.WriteString(c.Payload)
		}
		b.WriteByte('\n')
	}
	return b.String()
}

func c22Labels(cmds []c22Cmd) []string {
	out := make([]string, len(cmds))
	for i, c := range cmds {
		out[i] = c.Label
	}
	return out
}

// ---------------------------------------------------------------- universe

var (
	c22NodeIDs    = []string{"n1", "n2", "n3", "n4"}
	c22NodeRoles  = []string{"writer", "writer", "reader", "compactor"}
	c22ValidPaths = []string{
		"db1/cpu/2026/04/11/14/a.parquet",
		"db1/cpu/2026/04/11/15/b.parquet",
		"db2/mem/2026/04/11/14/c.parquet",
		"db1/cpu/2026/04/11/14/d..parquet",
	}
	c22InvalidPaths = []string{
		"",
		"/etc/passwd",
		"s3://bucket/db1/x.parquet",
		"db1/../../etc/x.parquet",
		"db1\\..\\x.parquet",
		"db1/a\x00b.parquet",
		"C:\\Windows\\x.parquet",
		"file:/etc/passwd",
	}
	c22Databases  = []string{"db1", "db2"}
	c22TokenNames = []string{"tokA", "tokB", "tokC", "tokD"}
	c22Prefixes   = []string{"p1", "p2"}
	c22Hashes     = []string{"h1", "h2"}
	c22GoodPerms  = []string{"read", "read,write", "admin", "", " read , write", "read,write,delete,admin"}
	c22OrgNames   = []string{"orgA", "orgB"}
	c22TeamNames  = []string{"t1", "t2"}
	c22Patterns   = []string{"db1", "*", "metrics_*"}
	c22Long257    = strings.Repeat("x", 257)
	c22Long1025   = strings.Repeat("d", 1025)
	c22Long513    = strings.Repeat("h", 513)
	c22BaseNano   = int64(1_760_000_000_000_000_000)
)

func c22Times() []time.Time {
	return []time.Time{
		time.Date(2026, 4, 11, 14, 0, 0, 0, time.UTC),
		time.Date(2026, 4, 11, 14, 30, 15, 123456789, time.UTC),
		time.Date(2026, 4, 11, 16, 0, 0, 0, time.FixedZone("", 2*3600)),
		time.Date(1969, 12, 31, 23, 59, 59, 0, time.UTC),
	}
}

// ---------------------------------------------------------------- constructors

func c22NodeInfo(id, role, state, writerState string, cores int) NodeInfo {
	return NodeInfo{ID: id, Name: "node-" + id, Role: role, ClusterName: "c1", Address: id + ":9100",
		APIAddress: id + ":8000", State: state, Version: "1.0", WriterState: writerState, CoreCount: cores}
}

func c22AddNode(n NodeInfo) c22Cmd {
	return c22Mk(fmt.Sprintf("add_node(%s,%s,ws=%q)", n.ID, n.Role, n.WriterState), CommandAddNode, AddNodePayload{Node: n}, "node:"+n.ID)
}
func c22UpdateNode(n NodeInfo) c22Cmd {
	return c22Mk(fmt.Sprintf("update_node(%s,%s,ws=%q)", n.ID, n.Role, n.WriterState), CommandUpdateNode, UpdateNodePayload{Node: n}, "node:"+n.ID)
}
func c22RemoveNode(id string) c22Cmd {
	return c22Mk(fmt.Sprintf("remove_node(%s)", id), CommandRemoveNode, RemoveNodePayload{NodeID: id}, "node:"+id)
}
func c22NodeState(id, st string) c22Cmd {
	return c22Mk(fmt.Sprintf("node_state(%s,%s)", id, st), CommandUpdateNodeState, UpdateNodeStatePayload{NodeID: id, NewState: st}, "node:"+id)
}
func c22Promote(id, old string) c22Cmd {
	return c22Mk(fmt.Sprintf("promote(%s,old=%s)", id, old), CommandPromoteWriter, PromoteWriterPayload{NodeID: id, OldPrimaryID: old}, "node:"+id)
}
func c22Demote(id string) c22Cmd {
	return c22Mk(fmt.Sprintf("demote(%s)", id), CommandDemoteWriter, DemoteWriterPayload{NodeID: id}, "node:"+id)
}
func c22AssignCompactor(id, old string) c22Cmd {
	return c22Mk(fmt.Sprintf("assign_compactor(%s)", id), CommandAssignCompactor, AssignCompactorPayload{NodeID: id, OldCompactorID: old}, "compactor")
}

func c22File(path, db string, created time.Time, size int64) FileEntry {
	return FileEntry{Path: path, SHA256: fmt.Sprintf("sha-%d", size), SizeBytes: size, Database: db, Measurement: "cpu",
		PartitionTime: time.Date(2026, 4, 11, 14, 0, 0, 0, time.UTC), OriginNodeID: "n1", Tier: "hot", CreatedAt: created}
}
func c22RegisterFile(fe FileEntry) c22Cmd {
	return c22Mk(fmt.Sprintf("register_file(%q,db=%q)", fe.Path, fe.Database), CommandRegisterFile, RegisterFilePayload{File: fe}, "file:"+fe.Path)
}
func c22UpdateFile(fe FileEntry) c22Cmd {
	return c22Mk(fmt.Sprintf("update_file(%q,db=%q)", fe.Path, fe.Database), CommandUpdateFile, UpdateFilePayload{File: fe}, "file:"+fe.Path)
}
func c22DeleteFile(path string) c22Cmd {
	return c22Mk(fmt.Sprintf("delete_file(%q)", path), CommandDeleteFile, DeleteFilePayload{Path: path, Reason: "compaction"}, "file:"+path)
}
func c22AsMember(c c22Cmd) c22Member {
	return c22Member{Label: c.Label, Type: c.Type, Payload: c.Payload}
}

func c22Token(name, hash, prefix, perms string, created int64) TokenEntry {
	return TokenEntry{Name: name, Description: "d-" + name, Permissions: perms, TokenHash: hash, TokenPrefix: prefix,
		CreatedAtUnixNano: created, Enabled: true}
}
func c22CreateToken(te TokenEntry) c22Cmd {
	return c22Mk(fmt.Sprintf("create_token(%s,prefix=%q)", c22Short(te.Name), c22Short(te.TokenPrefix)), CommandCreateToken, CreateTokenPayload{Token: te}, "token:"+te.Name)
}
func c22UpdateTokenCmd(p UpdateTokenPayload) c22Cmd {
	return c22Mk(fmt.Sprintf("update_token(%d,name=%s,%v)", p.ID, c22Short(p.Name), p.ChangedFields), CommandUpdateToken, p, "token:"+p.Name)
}
func c22RevokeToken(id int64) c22Cmd {
	return c22Mk(fmt.Sprintf("revoke_token(%d)", id), CommandRevokeToken, RevokeTokenPayload{ID: id}, fmt.Sprintf("tokenid:%d", id))
}
func c22DeleteToken(id int64) c22Cmd {
	return c22Mk(fmt.Sprintf("delete_token(%d)", id), CommandDeleteToken, DeleteTokenPayload{ID: id}, fmt.Sprintf("tokenid:%d", id))
}
func c22RotateToken(id int64, hash, prefix string) c22Cmd {
	return c22Mk(fmt.Sprintf("rotate_token(%d,%s)", id, c22Short(prefix)), CommandRotateToken, RotateTokenPayload{ID: id, NewHash: hash, NewPrefix: prefix}, fmt.Sprintf("tokenid:%d", id))
}

func c22CreateOrg(name, desc string, created int64) c22Cmd {
	return c22Mk(fmt.Sprintf("create_org(%s)", c22Short(name)), CommandCreateOrganization,
		CreateOrganizationPayload{Organization: OrganizationEntry{Name: name, Description: desc, CreatedAtUnixNano: created}}, "org:"+name)
}
func c22UpdateOrg(p UpdateOrganizationPayload) c22Cmd {
	return c22Mk(fmt.Sprintf("update_org(%d,name=%s,%v)", p.ID, c22Short(p.Name), p.ChangedFields), CommandUpdateOrganization, p, "org:"+p.Name)
}
func c22DeleteOrg(id int64) c22Cmd {
	return c22Mk(fmt.Sprintf("delete_org(%d)", id), CommandDeleteOrganization, DeleteOrganizationPayload{ID: id}, fmt.Sprintf("orgid:%d", id))
}
func c22CreateTeam(org int64, name, desc string, created int64) c22Cmd {
	return c22Mk(fmt.Sprintf("create_team(org=%d,%s)", org, c22Short(name)), CommandCreateTeam,
		CreateTeamPayload{Team: TeamEntry{OrganizationID: org, Name: name, Description: desc, CreatedAtUnixNano: created}}, fmt.Sprintf("team:%d/%s", org, name))
}
func c22UpdateTeam(p UpdateTeamPayload) c22Cmd {
	return c22Mk(fmt.Sprintf("update_team(%d,name=%s,%v)", p.ID, c22Short(p.Name), p.ChangedFields), CommandUpdateTeam, p, fmt.Sprintf("teamid:%d", p.ID))
}
func c22DeleteTeam(id int64) c22Cmd {
	return c22Mk(fmt.Sprintf("delete_team(%d)", id), CommandDeleteTeam, DeleteTeamPayload{ID: id}, fmt.Sprintf("teamid:%d", id))
}
func c22CreateRole(team int64, pattern, perms string, created int64) c22Cmd {
	return c22Mk(fmt.Sprintf("create_role(team=%d,%q)", team, c22Short(pattern)), CommandCreateRole,
		CreateRolePayload{Role: RoleEntry{TeamID: team, DatabasePattern: pattern, Permissions: perms, CreatedAtUnixNano: created}}, fmt.Sprintf("role:%d", team))
}
func c22UpdateRole(p UpdateRolePayload) c22Cmd {
	return c22Mk(fmt.Sprintf("update_role(%d,%v)", p.ID, p.ChangedFields), CommandUpdateRole, p, fmt.Sprintf("roleid:%d", p.ID))
}
func c22DeleteRole(id int64) c22Cmd {
	return c22Mk(fmt.Sprintf("delete_role(%d)", id), CommandDeleteRole, DeleteRolePayload{ID: id}, fmt.Sprintf("roleid:%d", id))
}
func c22CreateMPerm(role int64, pattern, perms string, created int64) c22Cmd {
	return c22Mk(fmt.Sprintf("create_mperm(role=%d,%q)", role, c22Short(pattern)), CommandCreateMeasurementPermission,
		CreateMeasurementPermissionPayload{MeasurementPermission: MeasurementPermissionEntry{RoleID: role, MeasurementPattern: pattern, Permissions: perms, CreatedAtUnixNano: created}}, fmt.Sprintf("mperm:%d", role))
}
func c22DeleteMPerm(id int64) c22Cmd {
	return c22Mk(fmt.Sprintf("delete_mperm(%d)", id), CommandDeleteMeasurementPermission, DeleteMeasurementPermissionPayload{ID: id}, fmt.Sprintf("mpermid:%d", id))
}
func c22AddMember(token, team int64, created int64) c22Cmd {
	return c22Mk(fmt.Sprintf("add_member(token=%d,team=%d)", token, team), CommandAddTokenToTeam,
		AddTokenToTeamPayload{Membership: TokenMembershipEntry{TokenID: token, TeamID: team, CreatedAtUnixNano: created}}, fmt.Sprintf("member:%d/%d", token, team))
}
func c22RemoveMember(token, team int64) c22Cmd {
	return c22Mk(fmt.Sprintf("remove_member(token=%d,team=%d)", token, team), CommandRemoveTokenFromTeam,
		RemoveTokenFromTeamPayload{TokenID: token, TeamID: team}, fmt.Sprintf("member:%d/%d", token, team))
}

func c22Short(s string) string {
	if len(s) > 12 {
		return fmt.Sprintf("<%d bytes>", len(s))
	}
	return s
}

// ---------------------------------------------------------------- live-state helpers

func c22SortedIDs[V any](m map[int64]V) []int64 {
	out := make([]int64, 0, len(m))
	for k := range m {
		out = append(out, k)
	}
	sort.Slice(out, func(i, j int) bool { return out[i] < out[j] })
	return out
}

func c22Existing(f *ClusterFSM, kind string) []int64 {
	if f == nil {
		return nil
	}
	switch kind {
	case "token":
		return c22SortedIDs(f.tokens)
	case "org":
		return c22SortedIDs(f.organizations)
	case "team":
		return c22SortedIDs(f.teams)
	case "role":
		return c22SortedIDs(f.roles)
	case "mperm":
		return c22SortedIDs(f.measurementPermissions)
	case "member":
		return c22SortedIDs(f.tokenMemberships)
	}
	return nil
}

func c22EntityCount(f *ClusterFSM) int {
	return len(f.tokens) + len(f.organizations) + len(f.teams) + len(f.roles) + len(f.measurementPermissions) + len(f.tokenMemberships)
}

// ---------------------------------------------------------------- C23 exclusion predicates
// (live here because the shared node generator consults them)

// c23PromoteExcluded: promote of an id that is not registered (finding C23-promote-unregistered).
func c23PromoteExcluded(f *ClusterFSM, id string) bool {
	if !verifkit.Excluded(kfC23PromoteGhost) || id == "" {
		return false
	}
	if _, ok := f.nodes[id]; ok {
		return false
	}
	verifkit.CountExcluded(kfC23PromoteGhost)
	return true
}

// c23ReaddExcluded: add/update of an existing id that has a recorded writer
// assignment (finding C23-readd-drops-writer-state).
func c23ReaddExcluded(f *ClusterFSM, id string) bool {
	if !verifkit.Excluded(kfC23Readd) {
		return false
	}
	n, ok := f.nodes[id]
	if !ok || (n.WriterState == "" && f.primaryWriterID != id) {
		return false
	}
	verifkit.CountExcluded(kfC23Readd)
	return true
}

// c23RemoveExcluded: remove of the current primary (finding C23-remove-primary-dangling).
func c23RemoveExcluded(f *ClusterFSM, id string) bool {
	if !verifkit.Excluded(kfC23RemovePrimary) || id == "" || f.primaryWriterID != id {
		return false
	}
	verifkit.CountExcluded(kfC23RemovePrimary)
	return true
}

func c22First(f *ClusterFSM, kind string) int64 {
	if ex := c22Existing(f, kind); len(ex) > 0 {
		return ex[0]
	}
	return 1
}

// c22Shard: the enumeration is split over shards by first symbol.
func c22Shard() (int, int) {
	shards := *c22EnumShards
	if shards < 1 {
		shards = 1
	}
	shard, _ := strconv.Atoi(os.Getenv("VERIF_SHARD"))
	if shard < 0 || shard >= shards {
		shard = 0
	}
	return shard, shards
}

// ---------------------------------------------------------------- generator

// Known-finding ids (generator exclusions are on only while the finding is open).
const (
	kfC22TokenRename   = "C22-token-rename-unvalidated"
	kfC22UpdateEmptyDB = "C22-updatefile-empty-db-index"
	kfC23PromoteGhost  = "C23-promote-unregistered"
	kfC23Readd         = "C23-readd-drops-writer-state"
	kfC23RemovePrimary = "C23-remove-primary-dangling"
)

type c22Gen struct {
	t    *rapid.T
	f    *ClusterFSM // live main FSM: generation is stateful
	next uint64
	pool map[string][]int64 // every id ever handed out by a create command, accepted or not
	// family weights
	wNode, wFile, wBatch, wToken, wRBAC, wMalformed, wRead int
	c23                                                    bool // C23 domain: add/update payloads never carry writer_state (as every real proposer)
}

func c22NewGen(t *rapid.T, f *ClusterFSM) *c22Gen {
	return &c22Gen{t: t, f: f, next: 0, pool: map[string][]int64{},
		wNode: 3, wFile: 4, wBatch: 2, wToken: 4, wRBAC: 7, wMalformed: 1, wRead: 1}
}

func (g *c22Gen) pick(label string, xs []string) string {
	return rapid.SampledFrom(xs).Draw(g.t, label)
}
func (g *c22Gen) chance(label string, num, den int) bool {
	return rapid.IntRange(0, den-1).Draw(g.t, label) < num
}

func (g *c22Gen) nextIndex() uint64 {
	g.next += rapid.SampledFrom([]uint64{1, 1, 1, 1, 2, 5}).Draw(g.t, "gap")
	return g.next
}

// id picks a reference: mostly an entity that exists now, sometimes a ghost
// (deleted / rejected create), an id of the wrong entity type, 0, negative, or a
// future log index (out-of-order ids).
func (g *c22Gen) id(kind string) int64 {
	ex := c22Existing(g.f, kind)
	r := rapid.IntRange(0, 11).Draw(g.t, "idsrc:"+kind)
	if r <= 7 && len(ex) > 0 {
		return rapid.SampledFrom(ex).Draw(g.t, "idex")
	}
	if r <= 9 && len(g.pool[kind]) > 0 {
		return rapid.SampledFrom(g.pool[kind]).Draw(g.t, "idpool")
	}
	if r == 10 {
		var all []int64
		for _, k := range []string{"token", "org", "team", "role", "mperm", "member"} {
			if k != kind {
				all = append(all, g.pool[k]...)
			}
		}
		if len(all) > 0 {
			return rapid.SampledFrom(all).Draw(g.t, "idother")
		}
	}
	return rapid.SampledFrom([]int64{0, -1, 999, int64(g.next) + 1, int64(g.next) + 2}).Draw(g.t, "idodd")
}

func (g *c22Gen) created() int64 {
	if g.chance("zerocreated", 1, 12) {
		return 0
	}
	return c22BaseNano + int64(rapid.IntRange(0, 5).Draw(g.t, "created"))
}

func (g *c22Gen) perms() string {
	if g.chance("badperm", 1, 10) {
		return g.pick("badpermv", []string{"bogus", "read,,write", "READ", "read;write"})
	}
	return g.pick("perm", c22GoodPerms)
}

func (g *c22Gen) name(label string, good []string) string {
	r := rapid.IntRange(0, 19).Draw(g.t, label+"kind")
	switch r {
	case 0:
		return ""
	case 1:
		return c22Long257
	}
	return g.pick(label, good)
}

func (g *c22Gen) desc() string {
	if g.chance("longdesc", 1, 15) {
		return c22Long1025
	}
	return g.pick("desc", []string{"", "some text", "other"})
}

func (g *c22Gen) changed(label string, fields []string) []string {
	var out []string
	n := rapid.IntRange(0, 3).Draw(g.t, label+"n")
	pool := append(append([]string{}, fields...), "bogus_field")
	for i := 0; i < n; i++ {
		out = append(out, g.pick(label, pool)) // duplicates on purpose
	}
	return out
}

// Next generates the next log entry (index assigned here).
func (g *c22Gen) Next() c22Cmd {
	type fam struct {
		w  int
		fn func() c22Cmd
	}
	fams := []fam{{g.wNode, g.genNode}, {g.wFile, g.genFile}, {g.wBatch, g.genBatch}, {g.wToken, g.genToken},
		{g.wRBAC, g.genRBAC}, {g.wMalformed, g.genMalformed}, {g.wRead, g.genRead}}
	total := 0
	for _, f := range fams {
		total += f.w
	}
	r := rapid.IntRange(0, total-1).Draw(g.t, "family")
	var c c22Cmd
	for _, f := range fams {
		if r < f.w {
			c = f.fn()
			break
		}
		r -= f.w
	}
	if !c.Read {
		c.Index = g.nextIndex()
		g.noteCreate(c)
	}
	return c
}

func (g *c22Gen) noteCreate(c c22Cmd) {
	kind := ""
	switch c.Type {
	case CommandCreateToken:
		kind = "token"
	case CommandCreateOrganization:
		kind = "org"
	case CommandCreateTeam:
		kind = "team"
	case CommandCreateRole:
		kind = "role"
	case CommandCreateMeasurementPermission:
		kind = "mperm"
	case CommandAddTokenToTeam:
		kind = "member"
	}
	if kind != "" && c.Raw == nil {
		g.pool[kind] = append(g.pool[kind], int64(c.Index))
	}
}

func (g *c22Gen) genRead() c22Cmd { return c22Cmd{Label: "read:GetFilesPaginated", Read: true} }

// ---- nodes

func (g *c22Gen) nodeID() string {
	if !g.c23 && g.chance("emptynode", 1, 25) {
		return ""
	}
	return g.pick("node", c22NodeIDs)
}

func (g *c22Gen) nodeInfo() NodeInfo {
	id := g.nodeID()
	role := g.pick("role", c22NodeRoles)
	ws := ""
	if !g.c23 {
		ws = g.pick("ws", []string{"", "", "", "primary", "standby"})
	}
	return c22NodeInfo(id, role, g.pick("state", []string{"healthy", "unhealthy"}), ws, rapid.IntRange(1, 4).Draw(g.t, "cores"))
}

func (g *c22Gen) genNode() c22Cmd {
	f := g.f
	for attempt := 0; ; attempt++ {
		if attempt >= 20 {
			// every attempt hit a shape excluded by an open finding: fall back to a
			// command no exclusion applies to
			return c22NodeState(g.nodeID(), "healthy")
		}
		switch rapid.IntRange(0, 11).Draw(g.t, "nodeop") {
		case 0, 1, 2:
			n := g.nodeInfo()
			if g.c23 && f != nil && c23ReaddExcluded(f, n.ID) {
				continue
			}
			return c22AddNode(n)
		case 3:
			n := g.nodeInfo()
			if g.c23 && f != nil && c23ReaddExcluded(f, n.ID) {
				continue
			}
			return c22UpdateNode(n)
		case 4:
			id := g.nodeID()
			if g.c23 && f != nil && c23RemoveExcluded(f, id) {
				continue
			}
			return c22RemoveNode(id)
		case 5:
			return c22NodeState(g.nodeID(), g.pick("newstate", []string{"healthy", "unhealthy", "dead"}))
		case 6, 7, 8:
			id := g.nodeID()
			if g.c23 && f != nil && c23PromoteExcluded(f, id) {
				continue
			}
			old := g.pick("old", []string{"", "n1", "n2"})
			if f != nil && g.chance("oldactual", 1, 2) {
				old = f.primaryWriterID
			}
			return c22Promote(id, old)
		case 9, 10:
			return c22Demote(g.nodeID())
		default:
			return c22AssignCompactor(g.pick("compactor", []string{"n1", "n2", "n3", "n4", ""}), g.pick("oldc", []string{"", "n1"}))
		}
	}
}

// ---- files

func (g *c22Gen) path(validBias int) string {
	if rapid.IntRange(0, 9).Draw(g.t, "pathvalid") < validBias {
		return g.pick("path", c22ValidPaths)
	}
	return g.pick("badpath", c22InvalidPaths)
}

func (g *c22Gen) fileEntry(validBias int, forUpdate bool) FileEntry {
	p := g.path(validBias)
	db := g.pick("db", []string{"db1", "db2", "db1", "db2", ""})
	if forUpdate && db == "" && verifkit.Excluded(kfC22UpdateEmptyDB) {
		verifkit.CountExcluded(kfC22UpdateEmptyDB)
		db = "db1"
	}
	created := rapid.SampledFrom(c22Times()).Draw(g.t, "filecreated")
	if g.chance("zerofiletime", 1, 12) {
		created = time.Time{}
	}
	fe := c22File(p, db, created, int64(rapid.IntRange(1, 5).Draw(g.t, "size")))
	fe.LSN = uint64(rapid.IntRange(0, 3).Draw(g.t, "payloadlsn")) // must be overwritten by apply
	return fe
}

func (g *c22Gen) fileOp(validBias int) c22Cmd {
	switch rapid.IntRange(0, 5).Draw(g.t, "fileop") {
	case 0, 1, 2:
		return c22RegisterFile(g.fileEntry(validBias, false))
	case 3:
		return c22UpdateFile(g.fileEntry(validBias, true))
	default:
		if g.chance("delodd", 1, 8) {
			return c22DeleteFile(g.pick("delbad", []string{"", "/etc/passwd", "nope"}))
		}
		return c22DeleteFile(g.pick("delpath", c22ValidPaths))
	}
}

func (g *c22Gen) genFile() c22Cmd { return g.fileOp(8) }

// genBatch: mostly-valid members with, half of the time, one invalid member at
// a random position (invalid path, zero created_at, empty delete path,
// undecodable payload, unsupported op type).
func (g *c22Gen) genBatch() c22Cmd {
	n := rapid.IntRange(0, 5).Draw(g.t, "batchn")
	members := make([]c22Member, 0, n+1)
	for i := 0; i < n; i++ {
		members = append(members, c22AsMember(g.fileOp(10)))
	}
	label := "batch"
	if g.chance("batchbad", 1, 2) {
		var bad c22Member
		switch rapid.IntRange(0, 5).Draw(g.t, "badkind") {
		case 0:
			fe := g.fileEntry(10, false)
			fe.Path = g.pick("badpath", c22InvalidPaths)
			bad = c22AsMember(c22RegisterFile(fe))
		case 1:
			fe := g.fileEntry(10, true)
			fe.Path = g.pick("badpath", c22InvalidPaths)
			bad = c22AsMember(c22UpdateFile(fe))
		case 2:
			fe := g.fileEntry(10, false)
			fe.CreatedAt = time.Time{}
			bad = c22AsMember(c22RegisterFile(fe))
		case 3:
			bad = c22AsMember(c22DeleteFile(""))
		case 4:
			bad = c22Member{Label: "garbage_member", Type: g.memberType(), Payload: g.pick("garbage", []string{`{"file":`, `{"file":{"path":5}}`, `[]`, `"x"`, ``})}
		default:
			bad = c22Member{Label: "unsupported_member", Type: CommandAddNode, Payload: c22JSON(AddNodePayload{Node: c22NodeInfo("n9", "writer", "healthy", "", 1)})}
		}
		pos := rapid.IntRange(0, len(members)).Draw(g.t, "badpos")
		members = append(members[:pos], append([]c22Member{bad}, members[pos:]...)...)
		label = fmt.Sprintf("batch(bad@%d/%d:%s)", pos, len(members), bad.Label)
	}
	c := c22MkBatch(label, members)
	if label == "batch" {
		c.Label = fmt.Sprintf("batch(%d members)", len(members))
	}
	return c
}

func (g *c22Gen) memberType() CommandType {
	return rapid.SampledFrom([]CommandType{CommandRegisterFile, CommandUpdateFile, CommandDeleteFile}).Draw(g.t, "membertype")
}

// ---- tokens

func (g *c22Gen) genToken() c22Cmd {
	switch rapid.IntRange(0, 9).Draw(g.t, "tokenop") {
	case 0, 1, 2, 3:
		te := c22Token(g.name("tokname", c22TokenNames), g.pick("hash", c22Hashes), g.pick("prefix", c22Prefixes), g.perms(), g.created())
		switch rapid.IntRange(0, 15).Draw(g.t, "tokbad") {
		case 0:
			te.TokenHash = ""
		case 1:
			te.TokenPrefix = ""
		case 2:
			te.TokenHash = c22Long513
		case 3:
			te.ID = g.id("token") // proposer-supplied id must be ignored
		case 4:
			te.Enabled = false
		}
		te.ExpiresAtUnixNano = rapid.SampledFrom([]int64{0, 0, c22BaseNano + 99}).Draw(g.t, "expires")
		return c22CreateToken(te)
	case 4, 5:
		p := UpdateTokenPayload{ID: g.id("token"), Name: g.name("newtokname", c22TokenNames), Description: g.pick("tdesc", []string{"", "new desc"}),
			Permissions: g.perms(), ExpiresAtUnixNano: rapid.SampledFrom([]int64{0, c22BaseNano + 77}).Draw(g.t, "newexp"),
			ChangedFields: g.changed("tokfields", []string{"name", "description", "permissions", "expires_at"})}
		if (p.Name == "" || len(p.Name) > 256) && c22Has(p.ChangedFields, "name") && verifkit.Excluded(kfC22TokenRename) {
			verifkit.CountExcluded(kfC22TokenRename)
			p.Name = g.pick("newtokname2", c22TokenNames)
		}
		return c22UpdateTokenCmd(p)
	case 6:
		return c22RevokeToken(g.id("token"))
	case 7:
		return c22DeleteToken(g.id("token"))
	default:
		h, p := g.pick("newhash", []string{"h3", "h1", "", c22Long513}), g.pick("newprefix", []string{"p1", "p2", "p3", ""})
		return c22RotateToken(g.id("token"), h, p)
	}
}

func c22Has(xs []string, s string) bool {
	for _, x := range xs {
		if x == s {
			return true
		}
	}
	return false
}

// ---- RBAC

func (g *c22Gen) genRBAC() c22Cmd {
	switch rapid.IntRange(0, 19).Draw(g.t, "rbacop") {
	case 0, 1:
		return c22CreateOrg(g.name("orgname", c22OrgNames), g.desc(), g.created())
	case 2:
		return c22UpdateOrg(UpdateOrganizationPayload{ID: g.id("org"), Name: g.name("neworg", c22OrgNames), Description: g.desc(),
			Enabled: rapid.Bool().Draw(g.t, "en"), UpdatedAtUnixNano: rapid.SampledFrom([]int64{0, c22BaseNano + 50}).Draw(g.t, "upd"),
			ChangedFields: g.changed("orgfields", []string{"name", "description", "enabled"})})
	case 3:
		return c22DeleteOrg(g.id("org"))
	case 4, 5, 6:
		return c22CreateTeam(g.id("org"), g.name("teamname", c22TeamNames), g.desc(), g.created())
	case 7:
		return c22UpdateTeam(UpdateTeamPayload{ID: g.id("team"), Name: g.name("newteam", c22TeamNames), Description: g.desc(),
			Enabled: rapid.Bool().Draw(g.t, "en"), UpdatedAtUnixNano: rapid.SampledFrom([]int64{0, c22BaseNano + 51}).Draw(g.t, "upd"),
			ChangedFields: g.changed("teamfields", []string{"name", "description", "enabled"})})
	case 8:
		return c22DeleteTeam(g.id("team"))
	case 9, 10, 11:
		return c22CreateRole(g.id("team"), g.name("pattern", c22Patterns), g.perms(), g.created())
	case 12:
		return c22UpdateRole(UpdateRolePayload{ID: g.id("role"), DatabasePattern: g.name("newpattern", c22Patterns), Permissions: g.perms(),
			ChangedFields: g.changed("rolefields", []string{"database_pattern", "permissions"})})
	case 13:
		return c22DeleteRole(g.id("role"))
	case 14, 15:
		return c22CreateMPerm(g.id("role"), g.name("mpattern", []string{"cpu", "*"}), g.perms(), g.created())
	case 16:
		return c22DeleteMPerm(g.id("mperm"))
	case 17, 18:
		return c22AddMember(g.id("token"), g.id("team"), g.created())
	default:
		return c22RemoveMember(g.id("token"), g.id("team"))
	}
}

// ---- malformed

func (g *c22Gen) genMalformed() c22Cmd {
	types := []CommandType{CommandAddNode, CommandRemoveNode, CommandUpdateNode, CommandUpdateNodeState, CommandPromoteWriter,
		CommandDemoteWriter, CommandRegisterFile, CommandDeleteFile, CommandAssignCompactor, CommandBatchFileOps, CommandUpdateFile,
		CommandCreateToken, CommandUpdateToken, CommandRevokeToken, CommandDeleteToken, CommandRotateToken,
		CommandCreateOrganization, CommandUpdateOrganization, CommandDeleteOrganization, CommandCreateTeam, CommandUpdateTeam,
		CommandDeleteTeam, CommandCreateRole, CommandUpdateRole, CommandDeleteRole, CommandCreateMeasurementPermission,
		CommandDeleteMeasurementPermission, CommandAddTokenToTeam, CommandRemoveTokenFromTeam, CommandType(0), CommandType(99)}
	if g.c23 {
		// in the C23 domain a `null`/`{}` payload of a node command is an add/update/remove of
		// node "" and would bypass the known-finding exclusions; keep malformed input to
		// payloads that cannot decode
		typ := rapid.SampledFrom(types).Draw(g.t, "maltype")
		return c22Mk(fmt.Sprintf("malformed(type=%d)", typ), typ, c22RawPayload(g.pick("malpayload", []string{`{"node":`, `[]`, `"str"`, `12`, `{"node":{"id":5}}`, `{"node_id":[1]}`, `{"id":"x"}`})), "malformed")
	}
	switch rapid.IntRange(0, 3).Draw(g.t, "malkind") {
	case 0:
		raw := g.pick("rawcmd", []string{``, `{`, `null`, `[]`, `{"type":"x"}`, `{"type":1,"payload":"!!!notbase64"}`, `{"type":300}`, `{"type":1}`})
		return c22Cmd{Label: "malformed_command", Raw: &raw, Key: "malformed"}
	default:
		typ := rapid.SampledFrom(types).Draw(g.t, "maltype")
		payload := g.pick("malpayload", []string{``, `null`, `{}`, `{"node":`, `[]`, `"str"`, `12`, `{"node":{"id":5}}`, `{"file":{"path":["a"]}}`,
			`{"token":{"name":7}}`, `{"id":"x"}`, `{"ops":[{"type":7,"payload":"e30="}]}`, `{"ops":"x"}`, `{"organization":null}`, `{"id":1,"changed_fields":"name"}`})
		return c22Mk(fmt.Sprintf("malformed(type=%d,%s)", typ, payload), typ, c22RawPayload(payload), "malformed")
	}
}

// Prelude: a valid org -> team -> role -> mperm chain, a token and a membership,
// so that deep cascades are reached often.
func (g *c22Gen) Prelude() []c22Cmd {
	var out []c22Cmd
	add := func(c c22Cmd) int64 {
		c.Index = g.nextIndex()
		g.noteCreate(c)
		out = append(out, c)
		return int64(c.Index)
	}
	org := add(c22CreateOrg(g.pick("porg", c22OrgNames), "", c22BaseNano))
	teamName := g.pick("pteam", c22TeamNames)
	team := add(c22CreateTeam(org, teamName, "", c22BaseNano))
	role := add(c22CreateRole(team, "db1", "read", c22BaseNano))
	add(c22CreateMPerm(role, "cpu", "read", c22BaseNano))
	tokName := g.pick("ptok", c22TokenNames)
	tok := add(c22CreateToken(c22Token(tokName, "h1", "p1", "read", c22BaseNano)))
	add(c22AddMember(tok, team, c22BaseNano))
	if rapid.Bool().Draw(g.t, "pwide") {
		// wide prelude: a token in exactly two teams and a team with two member
		// tokens, so that partial cascades (delete ONE of a token's teams, remove
		// ONE of a team's members and then delete the team) are reached often.
		other := func(pool []string, not string) string {
			for _, n := range pool {
				if n != not {
					return n
				}
			}
			return not + "2"
		}
		team2 := add(c22CreateTeam(org, other(c22TeamNames, teamName), "", c22BaseNano))
		tok2 := add(c22CreateToken(c22Token(other(c22TokenNames, tokName), "h2", "p2", "read", c22BaseNano)))
		add(c22AddMember(tok, team2, c22BaseNano))
		add(c22AddMember(tok2, team, c22BaseNano))
	}
	return out
}

// ---------------------------------------------------------------- canonical dump

// c22Dump returns one canonical string per data field of ClusterFSM. Fields are
// discovered by reflection; callbacks (func kind), the mutex and the atomic
// counters (package sync / sync/atomic) and the logger are skipped by
// kind/type, so a newly added data field is included automatically.
type c22State map[string]string

var c22Skipped = map[string]string{}

func c22Dump(f *ClusterFSM) c22State {
	out := c22State{}
	v := reflect.ValueOf(f).Elem()
	tp := v.Type()
	for i := 0; i < tp.NumField(); i++ {
		sf := tp.Field(i)
		if why := c22SkipReason(sf.Type); why != "" {
			c22Skipped[sf.Name] = why
			continue
		}
		fv := reflect.NewAt(sf.Type, unsafe.Pointer(v.Field(i).UnsafeAddr())).Elem()
		out[sf.Name] = c22Canon(fv, sf.Name == "tokensByPrefix")
	}
	return out
}

func c22SkipReason(t reflect.Type) string {
	if t.Kind() == reflect.Func || t.Kind() == reflect.Chan {
		return "callback/chan"
	}
	switch t.PkgPath() {
	case "sync", "sync/atomic":
		return "sync primitive / atomic counter"
	}
	if strings.Contains(t.PkgPath(), "zerolog") {
		return "logger"
	}
	return ""
}

const c22Empty = "∅"

var c22TimeType = reflect.TypeOf(time.Time{})

// c22Canon: maps sorted by key, nil == empty, empty inner containers dropped
// (an empty set is indistinguishable from an absent one for every lookup),
// time.Time by RFC3339Nano text (what a snapshot can carry).
func c22Canon(v reflect.Value, sortInts bool) string {
	switch v.Kind() {
	case reflect.Ptr, reflect.Interface:
		if v.IsNil() {
			return "nil"
		}
		return c22Canon(v.Elem(), sortInts)
	case reflect.Struct:
		if v.Type() == c22TimeType {
			return v.Interface().(time.Time).Format(time.RFC3339Nano)
		}
		var b strings.Builder
		b.WriteByte('{')
		for i := 0; i < v.NumField(); i++ {
			if c22SkipReason(v.Type().Field(i).Type) != "" {
				continue
			}
			if b.Len() > 1 {
				b.WriteByte(',')
			}
			b.WriteString(v.Type().Field(i).Name)
			b.WriteByte(':')
			b.WriteString(c22Canon(v.Field(i), sortInts))
		}
		b.WriteByte('}')
		return b.String()
	case reflect.Map:
		type kv struct{ k, v string }
		var kvs []kv
		it := v.MapRange()
		for it.Next() {
			val := c22Canon(it.Value(), sortInts)
			if val == c22Empty {
				continue
			}
			kvs = append(kvs, kv{c22Canon(it.Key(), false), val})
		}
		if len(kvs) == 0 {
			return c22Empty
		}
		sort.Slice(kvs, func(i, j int) bool { return kvs[i].k < kvs[j].k })
		var b strings.Builder
		b.WriteString("map[")
		for i, e := range kvs {
			if i > 0 {
				b.WriteByte(' ')
			}
			b.WriteString(e.k)
			b.WriteByte(':')
			b.WriteString(e.v)
		}
		b.WriteByte(']')
		return b.String()
	case reflect.Slice, reflect.Array:
		if v.Len() == 0 {
			return c22Empty
		}
		if v.Type().Elem().Kind() == reflect.Uint8 {
			return strconv.Quote(string(v.Bytes()))
		}
		elems := make([]string, v.Len())
		for i := range elems {
			elems[i] = c22Canon(v.Index(i), sortInts)
		}
		if sortInts {
			sort.Strings(elems)
		}
		return "[" + strings.Join(elems, " ") + "]"
	case reflect.String:
		return strconv.Quote(v.String())
	case reflect.Int, reflect.Int8, reflect.Int16, reflect.Int32, reflect.Int64:
		return c22Pad20(uint64(v.Int() + (1 << 62))) // fixed width so string order == numeric order
	case reflect.Uint, reflect.Uint8, reflect.Uint16, reflect.Uint32, reflect.Uint64:
		return c22Pad20(v.Uint())
	case reflect.Bool:
		return strconv.FormatBool(v.Bool())
	case reflect.Float32, reflect.Float64:
		return strconv.FormatFloat(v.Float(), 'g', -1, 64)
	case reflect.Func, reflect.Chan, reflect.UnsafePointer:
		return "-"
	}
	return fmt.Sprintf("?%s", v.Kind())
}

func c22Pad20(u uint64) string {
	var buf [20]byte
	for i := 19; i >= 0; i-- {
		buf[i] = byte('0' + u%10)
		u /= 10
	}
	return string(buf[:])
}

// c22Diff compares two dumps, ignoring the listed fields; returns "" when equal.
func c22Diff(a, b c22State, ignore ...string) string {
	names := map[string]bool{}
	for k := range a {
		names[k] = true
	}
	for k := range b {
		names[k] = true
	}
	keys := make([]string, 0, len(names))
	for k := range names {
		keys = append(keys, k)
	}
	sort.Strings(keys)
	var out []string
	for _, k := range keys {
		if c22Has(ignore, k) {
			continue
		}
		if a[k] != b[k] {
			out = append(out, fmt.Sprintf("field %s:\n      left:  %s\n      right: %s", k, c22Human(a[k]), c22Human(b[k])))
		}
	}
	return strings.Join(out, "\n    ")
}

// c22Human strips the zero padding / offset of canonical ints for reading.
func c22Human(s string) string {
	var b strings.Builder
	for i := 0; i < len(s); {
		if s[i] >= '0' && s[i] <= '9' {
			j := i
			for j < len(s) && s[j] >= '0' && s[j] <= '9' {
				j++
			}
			if j-i == 20 {
				if u, err := strconv.ParseUint(s[i:j], 10, 64); err == nil {
					if u >= 1<<61 {
						b.WriteString(strconv.FormatInt(int64(u-(1<<62)), 10))
					} else {
						b.WriteString(strconv.FormatUint(u, 10))
					}
					i = j
					continue
				}
			}
			b.WriteString(s[i:j])
			i = j
			continue
		}
		b.WriteByte(s[i])
		i++
	}
	return b.String()
}

// ---------------------------------------------------------------- snapshot plumbing

type c22Sink struct {
	bytes.Buffer
	closed, cancelled bool
}

func (s *c22Sink) ID() string    { return "c22" }
func (s *c22Sink) Cancel() error { s.cancelled = true; return nil }
func (s *c22Sink) Close() error  { s.closed = true; return nil }

func c22Persist(snap raft.FSMSnapshot) ([]byte, error) {
	sink := &c22Sink{}
	if err := snap.Persist(sink); err != nil {
		return nil, err
	}
	snap.Release()
	if sink.cancelled || !sink.closed {
		return nil, fmt.Errorf("sink cancelled=%v closed=%v", sink.cancelled, sink.closed)
	}
	return sink.Bytes(), nil
}

func c22RestoreInto(f *ClusterFSM, snap []byte) error {
	return f.Restore(io.NopCloser(bytes.NewReader(snap)))
}

// c22DirtyFSM is a restore target that already holds unrelated state in every map.
func c22DirtyFSM() *ClusterFSM {
	f := c22NewFSM()
	cmds := []c22Cmd{
		c22AddNode(c22NodeInfo("zz", "writer", "healthy", "", 1)),
		c22Promote("zz", ""),
		c22AssignCompactor("zz", ""),
		c22RegisterFile(c22File("zz/m/2026/01/01/00/z.parquet", "zz", c22Times()[0], 1)),
		c22CreateToken(c22Token("tokA", "hz", "p1", "admin", c22BaseNano)),
		c22CreateOrg("orgA", "", c22BaseNano),
	}
	for i, c := range cmds {
		c.Index = uint64(1000 + i)
		_ = c22Apply(f, c)
	}
	_ = c22Apply(f, c22WithIndex(c22CreateTeam(1005, "t1", "", c22BaseNano), 1006))
	_ = c22Apply(f, c22WithIndex(c22CreateRole(1006, "*", "read", c22BaseNano), 1007))
	_ = c22Apply(f, c22WithIndex(c22CreateMPerm(1007, "*", "read", c22BaseNano), 1008))
	_ = c22Apply(f, c22WithIndex(c22AddMember(1004, 1006, c22BaseNano), 1009))
	_, _, _ = f.GetFilesPaginated("", 10)
	return f
}

func c22WithIndex(c c22Cmd, idx uint64) c22Cmd { c.Index = idx; return c }
