//go:build verif

package raft

// C22 - Cluster state machine: replay determinism and snapshot fidelity.
//
// Oracle (after every prefix of a generated committed-command sequence):
//  (1) a twin FSM fed the same prefix later in wall-clock time has the same canonical dump;
//  (2) Snapshot (taken at the prefix, persisted only after the NEXT command was applied, as
//      hashicorp/raft does concurrently) -> Persist -> Restore into a fresh or a dirty FSM
//      gives the same dump;
//  (3) restore at a prefix and applying the suffix equals straight replay (one step from every
//      prefix, a rolling restore-at-random-points replica, full suffixes from sampled prefixes -
//      from every prefix in the exhaustive enumeration);
//  (4) every lookup index equals the index recomputed from the primary maps;
//  (5) a batch that returns an error leaves the dump unchanged, a batch that returns success
//      equals its members applied one by one at the same log index.

import (
	"fmt"
	"reflect"
	"sort"
	"strings"
	"testing"

	"pgregory.net/rapid"

	"github.com/basekick-labs/arc/internal/verifkit"
)

type c22TB interface {
	Fatalf(format string, args ...any)
}

// ---------------------------------------------------------------- (4) index oracle

// c22IndexMismatch recomputes every secondary index from the primary maps and
// compares with what the FSM stores. Returns "" when all agree.
func c22IndexMismatch(f *ClusterFSM, st c22State) string {
	var bad []string
	cmp := func(field string, want any) {
		got, ok := st[field]
		if !ok {
			bad = append(bad, fmt.Sprintf("index field %s no longer exists in ClusterFSM (harness anchor)", field))
			return
		}
		w := c22Canon(reflect.ValueOf(want), field == "tokensByPrefix")
		if got != w {
			bad = append(bad, fmt.Sprintf("index %s disagrees with primary records:\n      stored:     %s\n      recomputed: %s", field, c22Human(got), c22Human(w)))
		}
	}

	filesByDB := map[string]map[string]struct{}{}
	for p, e := range f.files {
		if e == nil {
			bad = append(bad, fmt.Sprintf("files[%q] is nil", p))
			continue
		}
		if e.Path != p {
			bad = append(bad, fmt.Sprintf("files[%q].Path == %q", p, e.Path))
		}
		if filesByDB[e.Database] == nil {
			filesByDB[e.Database] = map[string]struct{}{}
		}
		filesByDB[e.Database][p] = struct{}{}
	}
	cmp("filesByDB", filesByDB)

	if f.keysCache != nil {
		keys := make([]string, 0, len(f.files))
		for p := range f.files {
			keys = append(keys, p)
		}
		sort.Strings(keys)
		if strings.Join(keys, "\x01") != strings.Join(f.keysCache, "\x01") {
			bad = append(bad, fmt.Sprintf("keysCache is stale: cache=%q files=%q", f.keysCache, keys))
		}
	}

	byPrefix := map[string][]int64{}
	byName := map[string]int64{}
	for id, e := range f.tokens {
		if e == nil || e.ID != id {
			bad = append(bad, fmt.Sprintf("tokens[%d] nil or carries another id", id))
			continue
		}
		byPrefix[e.TokenPrefix] = append(byPrefix[e.TokenPrefix], id)
		if other, dup := byName[e.Name]; dup {
			bad = append(bad, fmt.Sprintf("two tokens (%d,%d) share the name %q", other, id, e.Name))
		}
		byName[e.Name] = id
	}
	cmp("tokensByPrefix", byPrefix)
	cmp("tokensByName", byName)

	orgByName := map[string]int64{}
	for id, e := range f.organizations {
		if e == nil || e.ID != id {
			bad = append(bad, fmt.Sprintf("organizations[%d] nil or carries another id", id))
			continue
		}
		if other, dup := orgByName[e.Name]; dup {
			bad = append(bad, fmt.Sprintf("two organizations (%d,%d) share the name %q", other, id, e.Name))
		}
		orgByName[e.Name] = id
	}
	cmp("organizationsByName", orgByName)

	teamsByOrg := map[int64]map[string]int64{}
	for id, e := range f.teams {
		if e == nil || e.ID != id {
			bad = append(bad, fmt.Sprintf("teams[%d] nil or carries another id", id))
			continue
		}
		if teamsByOrg[e.OrganizationID] == nil {
			teamsByOrg[e.OrganizationID] = map[string]int64{}
		}
		if other, dup := teamsByOrg[e.OrganizationID][e.Name]; dup {
			bad = append(bad, fmt.Sprintf("two teams (%d,%d) share (org %d, name %q)", other, id, e.OrganizationID, e.Name))
		}
		teamsByOrg[e.OrganizationID][e.Name] = id
	}
	cmp("teamsByOrg", teamsByOrg)

	rolesByTeam := map[int64]map[int64]struct{}{}
	for id, e := range f.roles {
		if e == nil || e.ID != id {
			bad = append(bad, fmt.Sprintf("roles[%d] nil or carries another id", id))
			continue
		}
		if rolesByTeam[e.TeamID] == nil {
			rolesByTeam[e.TeamID] = map[int64]struct{}{}
		}
		rolesByTeam[e.TeamID][id] = struct{}{}
	}
	cmp("rolesByTeam", rolesByTeam)

	mpByRole := map[int64]map[int64]struct{}{}
	for id, e := range f.measurementPermissions {
		if e == nil || e.ID != id {
			bad = append(bad, fmt.Sprintf("measurementPermissions[%d] nil or carries another id", id))
			continue
		}
		if mpByRole[e.RoleID] == nil {
			mpByRole[e.RoleID] = map[int64]struct{}{}
		}
		mpByRole[e.RoleID][id] = struct{}{}
	}
	cmp("measurementPermsByRole", mpByRole)

	byPair := map[int64]map[int64]int64{}
	byToken := map[int64]map[int64]struct{}{}
	byTeam := map[int64]map[int64]struct{}{}
	for id, e := range f.tokenMemberships {
		if e == nil || e.ID != id {
			bad = append(bad, fmt.Sprintf("tokenMemberships[%d] nil or carries another id", id))
			continue
		}
		if byPair[e.TokenID] == nil {
			byPair[e.TokenID] = map[int64]int64{}
		}
		if other, dup := byPair[e.TokenID][e.TeamID]; dup {
			bad = append(bad, fmt.Sprintf("two memberships (%d,%d) share (token %d, team %d)", other, id, e.TokenID, e.TeamID))
		}
		byPair[e.TokenID][e.TeamID] = id
		if byToken[e.TokenID] == nil {
			byToken[e.TokenID] = map[int64]struct{}{}
		}
		byToken[e.TokenID][id] = struct{}{}
		if byTeam[e.TeamID] == nil {
			byTeam[e.TeamID] = map[int64]struct{}{}
		}
		byTeam[e.TeamID][id] = struct{}{}
	}
	cmp("tokenMembershipsByPair", byPair)
	cmp("tokenMembershipsByToken", byToken)
	cmp("tokenMembershipsByTeam", byTeam)

	// the RBAC hierarchy indexes must only point at live parents/children
	return strings.Join(bad, "\n    ")
}

// ---------------------------------------------------------------- sequence execution

type c22Run struct {
	cmds       []c22Cmd
	results    []error
	dumps      []c22State // dumps[i]: main FSM after i entries
	snaps      [][]byte   // snaps[i]: snapshot of the state after i entries
	cascade    bool       // some delete removed more than one RBAC/token entity
	rejThenAcc bool       // a rejected entry followed by an accepted one on the same key
}

func c22Failf(tb c22TB, run *c22Run, class, format string, args ...any) {
	msg := fmt.Sprintf(format, args...)
	if _, isRapid := tb.(*rapid.T); !isRapid { // rapid keeps its own shrunk .fail file
		verifkit.WriteReplay("c22-history", map[string]any{"class": class, "what": msg, "commands": run.cmds})
	}
	tb.Fatalf("VERIF-FAIL class=C22/%s\n    %s\n  history (%d entries):\n%s", class, msg, len(run.cmds), c22History(run.cmds, run.results))
}

// c22Main applies entries produced by next() to the main FSM, checking the
// per-state oracles (4) and the error half of (5) as it goes, and records a
// dump and a (late-persisted) snapshot for every prefix.
func c22Main(tb c22TB, a *ClusterFSM, next func(i int) (c22Cmd, bool)) *c22Run {
	run := &c22Run{}
	run.dumps = append(run.dumps, c22Dump(a))
	rejected := map[string]bool{}
	for i := 0; ; i++ {
		c, ok := next(i)
		if !ok {
			break
		}
		run.cmds = append(run.cmds, c)
		snap, err := a.Snapshot() // snapshot of prefix i ...
		if err != nil {
			c22Failf(tb, run, "snapshot-error", "Snapshot() after %d entries: %v", i, err)
		}
		entBefore := c22EntityCount(a)
		res := c22Apply(a, c)
		run.results = append(run.results, res)
		data, perr := c22Persist(snap) // ... persisted while the FSM has already moved on
		if perr != nil {
			c22Failf(tb, run, "persist-error", "Persist of the snapshot taken after %d entries: %v", i, perr)
		}
		run.snaps = append(run.snaps, data)
		d := c22Dump(a)
		run.dumps = append(run.dumps, d)
		if c.Batch && res != nil {
			if diff := c22Diff(run.dumps[i], d, "keysCache"); diff != "" {
				c22Failf(tb, run, "batch-not-atomic", "entry [%d] (batch) returned an error but changed the state:\n    %s", i, diff)
			}
		}
		if m := c22IndexMismatch(a, d); m != "" {
			c22Failf(tb, run, "index-disagrees", "after entry [%d]:\n    %s", i, m)
		}
		if entBefore-c22EntityCount(a) > 1 {
			run.cascade = true
		}
		if c.Key != "" && !c.Read {
			if res != nil {
				rejected[c.Key] = true
			} else if rejected[c.Key] {
				run.rejThenAcc = true
			}
		}
	}
	final, err := a.Snapshot()
	if err != nil {
		c22Failf(tb, run, "snapshot-error", "Snapshot() at the end: %v", err)
	}
	data, perr := c22Persist(final)
	if perr != nil {
		c22Failf(tb, run, "persist-error", "Persist at the end: %v", perr)
	}
	run.snaps = append(run.snaps, data)
	return run
}

func c22RestoreNew(tb c22TB, run *c22Run, i int, dirty bool) *ClusterFSM {
	var r *ClusterFSM
	if dirty {
		r = c22DirtyFSM()
	} else {
		r = c22NewFSM()
	}
	if err := c22RestoreInto(r, run.snaps[i]); err != nil {
		c22Failf(tb, run, "restore-error", "Restore of the snapshot taken after %d entries failed: %v\n    snapshot: %s", i, err, run.snaps[i])
	}
	return r
}

// c22Cross runs the replica oracles (1),(2),(3),(5) against a finished main run.
// rolling[i] says whether the rolling replica snapshots+restores itself before
// entry i; suffixFrom lists prefixes from which the whole suffix is replayed.
func c22Cross(tb c22TB, run *c22Run, rolling []bool, suffixFrom []int) {
	n := len(run.cmds)
	// (1) twin, applied later than the main run
	b := c22NewFSM()
	// (5) sequential replica: batches applied member by member
	e := c22NewFSM()
	// (3) rolling restore replica
	c := c22NewFSM()
	for i := 0; i < n; i++ {
		cmd := run.cmds[i]
		if cmd.Read {
			continue
		}
		resB := c22Apply(b, cmd)
		if (resB == nil) != (run.results[i] == nil) {
			c22Failf(tb, run, "replay-result-differs", "entry [%d]: main FSM returned %v, twin returned %v", i, run.results[i], resB)
		}
		if diff := c22Diff(run.dumps[i+1], c22Dump(b), "keysCache"); diff != "" {
			c22Failf(tb, run, "replay-diverges", "twin FSM differs from the main FSM after entry [%d]:\n    %s", i, diff)
		}

		if cmd.Batch {
			if run.results[i] == nil {
				for k, m := range cmd.Members {
					if err := c22ApplyRaw(e, c22LogData(m.Type, m.Payload), cmd.Index); err != nil {
						c22Failf(tb, run, "batch-partial", "entry [%d]: batch reported success but member %d (%s) fails on its own: %v", i, k, m.Label, err)
					}
				}
			}
		} else {
			_ = c22Apply(e, cmd)
		}
		if diff := c22Diff(run.dumps[i+1], c22Dump(e), "keysCache"); diff != "" {
			c22Failf(tb, run, "batch-not-members", "after entry [%d] the state differs from applying batch members one by one (failed batches skipped):\n    %s", i, diff)
		}

		if i < len(rolling) && rolling[i] {
			snap, err := c.Snapshot()
			if err != nil {
				c22Failf(tb, run, "snapshot-error", "rolling replica Snapshot(): %v", err)
			}
			data, err := c22Persist(snap)
			if err != nil {
				c22Failf(tb, run, "persist-error", "rolling replica Persist: %v", err)
			}
			c = c22NewFSM()
			if err := c22RestoreInto(c, data); err != nil {
				c22Failf(tb, run, "restore-error", "rolling replica Restore before entry [%d]: %v", i, err)
			}
		}
		_ = c22Apply(c, cmd)
		if diff := c22Diff(run.dumps[i+1], c22Dump(c), "keysCache"); diff != "" {
			c22Failf(tb, run, "restore-then-suffix", "replica restored from its own snapshots (before entries %v) differs from straight replay after entry [%d]:\n    %s", c22TruePositions(rolling, i), i, diff)
		}
	}

	// (2) + one-step (3) from every prefix
	for i := 0; i <= n; i++ {
		r := c22RestoreNew(tb, run, i, i%2 == 1)
		rd := c22Dump(r)
		if diff := c22Diff(run.dumps[i], rd, "keysCache"); diff != "" {
			c22Failf(tb, run, "snapshot-infidelity", "restoring the snapshot taken after %d entries (persisted after entry [%d] ran; dirty target=%v) does not reproduce that state:\n    %s\n    snapshot: %s",
				i, i, i%2 == 1, diff, run.snaps[i])
		}
		if m := c22IndexMismatch(r, rd); m != "" {
			c22Failf(tb, run, "index-disagrees-after-restore", "after restoring the snapshot of prefix %d:\n    %s", i, m)
		}
		if i < n && !run.cmds[i].Read {
			_ = c22Apply(r, run.cmds[i])
			if diff := c22Diff(run.dumps[i+1], c22Dump(r), "keysCache"); diff != "" {
				c22Failf(tb, run, "restore-then-suffix", "restore at prefix %d then entry [%d] differs from straight replay:\n    %s", i, i, diff)
			}
		}
	}
	// full-suffix (3)
	for _, i := range suffixFrom {
		if i < 0 || i > n {
			continue
		}
		r := c22RestoreNew(tb, run, i, false)
		for j := i; j < n; j++ {
			if run.cmds[j].Read {
				continue
			}
			_ = c22Apply(r, run.cmds[j])
		}
		if diff := c22Diff(run.dumps[n], c22Dump(r), "keysCache"); diff != "" {
			c22Failf(tb, run, "restore-then-suffix", "restore at prefix %d then the whole suffix differs from straight replay:\n    %s", i, diff)
		}
	}
}

func c22TruePositions(bs []bool, upto int) []int {
	var out []int
	for i, b := range bs {
		if b && i <= upto {
			out = append(out, i)
		}
	}
	return out
}

func c22Record(run *c22Run, kind string) {
	verifkit.Eval()
	verifkit.ClassN("entries", len(run.cmds))
	acc, rej, batchOK, batchErr := 0, 0, 0, 0
	for i, c := range run.cmds {
		if c.Read {
			continue
		}
		if run.results[i] == nil {
			acc++
			if c.Batch {
				batchOK++
			}
		} else {
			rej++
			if c.Batch {
				batchErr++
			}
		}
	}
	verifkit.ClassN("accepted", acc)
	verifkit.ClassN("rejected", rej)
	verifkit.ClassN("batch_ok", batchOK)
	verifkit.ClassN("batch_refused", batchErr)
	if run.cascade {
		verifkit.Class("seq_with_cascade")
	}
	if run.rejThenAcc {
		verifkit.Class("seq_rejected_then_accepted_same_key")
	}
	if run.cascade || run.rejThenAcc {
		verifkit.NonTrivial(c22SeqKey(run.cmds))
		if verifkit.SampleCount() < 3 && len(run.cmds) <= 14 {
			verifkit.Sample(map[string]any{"kind": kind, "entries": c22Labels(run.cmds), "cascade": run.cascade, "rejected_then_accepted": run.rejThenAcc})
		}
	}
}

// ---------------------------------------------------------------- random sequences

func TestVerifC22_Sequences(t *testing.T) {
	maxLen := verifkit.Scale(36, 40)
	rapid.Check(t, func(t *rapid.T) {
		a := c22NewFSM()
		g := c22NewGen(t, a)
		var prelude []c22Cmd
		if rapid.Bool().Draw(t, "prelude") {
			prelude = g.Prelude()
		}
		n := rapid.IntRange(1, maxLen).Draw(t, "len")
		run := c22Main(t, a, func(i int) (c22Cmd, bool) {
			if i < len(prelude) {
				return prelude[i], true
			}
			if i >= len(prelude)+n {
				return c22Cmd{}, false
			}
			return g.Next(), true
		})
		total := len(run.cmds)
		rolling := make([]bool, total)
		for i := range rolling {
			rolling[i] = rapid.IntRange(0, 3).Draw(t, "rollrestore") == 0
		}
		suffix := []int{rapid.IntRange(0, total).Draw(t, "suffixfrom1"), rapid.IntRange(0, total).Draw(t, "suffixfrom2")}
		c22Cross(t, run, rolling, suffix)
		c22Record(run, "random")
	})
	verifkit.Note("c22_fields_skipped_by_kind", c22Skipped)
	verifkit.Note("c22_fields_dumped", c22FieldNames())
}

func c22FieldNames() []string {
	var out []string
	for k := range c22Dump(c22NewFSM()) {
		out = append(out, k)
	}
	sort.Strings(out)
	return out
}

// ---------------------------------------------------------------- exhaustive short sequences

// c22Alphabet: fixed commands whose entity references are resolved against the
// live state ("the first existing token", ...), so that every sequence is
// meaningful whatever its order.
type c22Sym struct {
	name string
	mk   func(f *ClusterFSM) c22Cmd
}

func c22Alphabet() []c22Sym {
	t0 := c22Times()[0]
	f1, f2 := c22ValidPaths[0], c22ValidPaths[1]
	return []c22Sym{
		{"create_token(tokA,p1)", func(f *ClusterFSM) c22Cmd { return c22CreateToken(c22Token("tokA", "h1", "p1", "read", c22BaseNano)) }},
		{"create_token(tokB,p1)", func(f *ClusterFSM) c22Cmd { return c22CreateToken(c22Token("tokB", "h2", "p1", "admin", c22BaseNano)) }},
		{"rename_first_token(tokB)", func(f *ClusterFSM) c22Cmd {
			return c22UpdateTokenCmd(UpdateTokenPayload{ID: c22First(f, "token"), Name: "tokB", ChangedFields: []string{"name", "name"}})
		}},
		{"delete_first_token", func(f *ClusterFSM) c22Cmd { return c22DeleteToken(c22First(f, "token")) }},
		{"rotate_first_token(p2)", func(f *ClusterFSM) c22Cmd { return c22RotateToken(c22First(f, "token"), "h9", "p2") }},
		{"create_org(orgA)", func(f *ClusterFSM) c22Cmd { return c22CreateOrg("orgA", "", c22BaseNano) }},
		{"create_team(first_org,t1)", func(f *ClusterFSM) c22Cmd { return c22CreateTeam(c22First(f, "org"), "t1", "", c22BaseNano) }},
		{"create_role(first_team)", func(f *ClusterFSM) c22Cmd { return c22CreateRole(c22First(f, "team"), "db1", "read", c22BaseNano) }},
		{"add_member(first_token,first_team)", func(f *ClusterFSM) c22Cmd {
			return c22AddMember(c22First(f, "token"), c22First(f, "team"), c22BaseNano)
		}},
		{"delete_first_org", func(f *ClusterFSM) c22Cmd { return c22DeleteOrg(c22First(f, "org")) }},
		{"register_file(f1,db1)", func(f *ClusterFSM) c22Cmd { return c22RegisterFile(c22File(f1, "db1", t0, 1)) }},
		{"update_file(f1,db2)", func(f *ClusterFSM) c22Cmd { return c22UpdateFile(c22File(f1, "db2", t0, 2)) }},
		{"batch[register f2, delete f1]", func(f *ClusterFSM) c22Cmd {
			return c22MkBatch("batch[register f2, delete f1]", []c22Member{c22AsMember(c22RegisterFile(c22File(f2, "db1", t0, 3))), c22AsMember(c22DeleteFile(f1))})
		}},
		{"batch[delete f1, register f2, register INVALID]", func(f *ClusterFSM) c22Cmd {
			return c22MkBatch("batch[delete f1, register f2, register INVALID]", []c22Member{c22AsMember(c22DeleteFile(f1)),
				c22AsMember(c22RegisterFile(c22File(f2, "db2", t0, 4))), c22AsMember(c22RegisterFile(c22File("/etc/passwd", "db1", t0, 5)))})
		}},
	}
}

// TestVerifC22Enum enumerates EVERY sequence of length 1..L over the alphabet
// (L = 3 quick, 4 thorough) with snapshot/restore at every prefix and the full
// suffix replayed from every prefix.
func TestVerifC22Enum_AllShortSequences(t *testing.T) {
	alpha := c22Alphabet()
	maxLen := verifkit.Scale(3, 4)
	shard, shards := c22Shard()
	count := 0
	seq := make([]int, 0, maxLen)
	var rec func()
	rec = func() {
		if len(seq) > 0 {
			a := c22NewFSM()
			run := c22Main(t, a, func(i int) (c22Cmd, bool) {
				if i >= len(seq) {
					return c22Cmd{}, false
				}
				c := alpha[seq[i]].mk(a)
				c.Index = uint64(i + 1)
				return c, true
			})
			all := make([]int, len(seq)+1)
			rolling := make([]bool, len(seq))
			for i := range all {
				all[i] = i
			}
			for i := range rolling {
				rolling[i] = true
			}
			c22Cross(t, run, rolling, all)
			c22Record(run, "enumerated")
			count++
		}
		if len(seq) == maxLen {
			return
		}
		for s := range alpha {
			if len(seq) == 0 && s%shards != shard {
				continue
			}
			seq = append(seq, s)
			rec()
			seq = seq[:len(seq)-1]
		}
	}
	rec()
	verifkit.Note("c22_enum", map[string]any{"alphabet": len(alpha), "max_len": maxLen, "sequences_this_shard": count, "shard": shard, "shards": shards})
	verifkit.Exhaustive()
}

// ---------------------------------------------------------------- known-finding reproductions

// A token renamed to "" (or to an over-long name) is accepted by
// applyUpdateToken but refused by Restore's validateTokenEntry: the token (and
// its memberships) vanish on every node that restores from a snapshot.
func TestVerifKF_C22_token_rename_unvalidated(t *testing.T) {
	a := c22NewFSM()
	e1 := c22Apply(a, c22WithIndex(c22CreateToken(c22Token("tokA", "h1", "p1", "read", c22BaseNano)), 1))
	e2 := c22Apply(a, c22WithIndex(c22UpdateTokenCmd(UpdateTokenPayload{ID: 1, Name: "", ChangedFields: []string{"name"}}), 2))
	snap, err := a.Snapshot()
	rep := false
	if err == nil && e1 == nil && e2 == nil {
		data, perr := c22Persist(snap)
		r := c22NewFSM()
		if perr == nil && c22RestoreInto(r, data) == nil {
			rep = len(a.tokens) == 1 && len(r.tokens) == 0
		}
	}
	verifkit.KnownFinding(kfC22TokenRename, rep, "create_token(tokA)@1; update_token(id=1,name=\"\",changed=[name]) is accepted; snapshot+restore drops the token")
}

// UpdateFile with an empty database stores the file but skips filesByDB, while
// RegisterFile and Restore index it under "": the index disagrees with the
// primary map and a restored node answers GetFilesByDatabase("") differently.
func TestVerifKF_C22_updatefile_empty_db(t *testing.T) {
	a := c22NewFSM()
	e1 := c22Apply(a, c22WithIndex(c22UpdateFile(c22File(c22ValidPaths[0], "", c22Times()[0], 1)), 1))
	rep := false
	if e1 == nil {
		snap, err := a.Snapshot()
		if err == nil {
			data, perr := c22Persist(snap)
			r := c22NewFSM()
			if perr == nil && c22RestoreInto(r, data) == nil {
				rep = len(a.files) == 1 && len(a.GetFilesByDatabase("")) == 0 && len(r.GetFilesByDatabase("")) == 1
			}
		}
	}
	verifkit.KnownFinding(kfC22UpdateEmptyDB, rep, "update_file(path=db1/cpu/.../a.parquet, database=\"\")@1: files has the entry, filesByDB[\"\"] does not; after snapshot+restore it does")
}
