//go:build verif

package raft

// C23 - Cluster role assignments stay consistent.
//
// Invariant checked after EVERY applied entry:
//   (a) at most one node has WriterState == "primary";
//   (b) primaryWriterID != "" implies that node exists and is marked primary;
//   (c) add/update of an id that is already registered (same role in the payload, no
//       writer_state in the payload - what every real proposer sends) leaves primaryWriterID and
//       that node's recorded writer state as they were;
//   (d) every team has its organization, every role its team, every measurement permission its
//       role, every membership its team and its token.
//
// Uses the C22 engine (zz_c22_engine_verif_test.go) for the command model and generator.

import (
	"encoding/json"
	"fmt"
	"sort"
	"testing"

	"pgregory.net/rapid"

	"github.com/basekick-labs/arc/internal/verifkit"
)

type c23TB interface {
	Fatalf(format string, args ...any)
}

// c23StateViolation checks (a), (b) and (d) on the current state.
func c23StateViolation(f *ClusterFSM) (class, msg string) {
	var primaries []string
	for id, n := range f.nodes {
		if n != nil && n.WriterState == "primary" {
			primaries = append(primaries, id)
		}
	}
	sort.Strings(primaries)
	if len(primaries) > 1 {
		return "two-primaries", fmt.Sprintf("nodes %v are all marked primary (primaryWriterID=%q)", primaries, f.primaryWriterID)
	}
	if id := f.primaryWriterID; id != "" {
		n, ok := f.nodes[id]
		if !ok {
			return "primary-dangling", fmt.Sprintf("primaryWriterID=%q but no such node is registered (nodes: %v)", id, c23NodeSummary(f))
		}
		if n.WriterState != "primary" {
			return "primary-not-marked", fmt.Sprintf("primaryWriterID=%q but that node's writer state is %q (nodes: %v)", id, n.WriterState, c23NodeSummary(f))
		}
	}
	for id, e := range f.teams {
		if _, ok := f.organizations[e.OrganizationID]; !ok {
			return "orphan-team", fmt.Sprintf("team %d refers to organization %d which does not exist", id, e.OrganizationID)
		}
	}
	for id, e := range f.roles {
		if _, ok := f.teams[e.TeamID]; !ok {
			return "orphan-role", fmt.Sprintf("role %d refers to team %d which does not exist", id, e.TeamID)
		}
	}
	for id, e := range f.measurementPermissions {
		if _, ok := f.roles[e.RoleID]; !ok {
			return "orphan-measurement-permission", fmt.Sprintf("measurement permission %d refers to role %d which does not exist", id, e.RoleID)
		}
	}
	for id, e := range f.tokenMemberships {
		if _, ok := f.teams[e.TeamID]; !ok {
			return "orphan-membership", fmt.Sprintf("membership %d refers to team %d which does not exist", id, e.TeamID)
		}
		if _, ok := f.tokens[e.TokenID]; !ok {
			return "orphan-membership", fmt.Sprintf("membership %d refers to token %d which does not exist", id, e.TokenID)
		}
	}
	return "", ""
}

func c23NodeSummary(f *ClusterFSM) []string {
	var out []string
	for id, n := range f.nodes {
		out = append(out, fmt.Sprintf("%s(%s,ws=%q)", id, n.Role, n.WriterState))
	}
	sort.Strings(out)
	return out
}

type c23Hist struct {
	cmds    []c22Cmd
	results []error
}

func c23Failf(tb c23TB, h *c23Hist, class, format string, args ...any) {
	msg := fmt.Sprintf(format, args...)
	if _, isRapid := tb.(*rapid.T); !isRapid {
		verifkit.WriteReplay("c23-history", map[string]any{"class": class, "what": msg, "commands": h.cmds})
	}
	tb.Fatalf("VERIF-FAIL class=C23/%s\n    %s\n  history (%d entries):\n%s", class, msg, len(h.cmds), c22History(h.cmds, h.results))
}

// c23Step applies one entry and checks the invariant, including (c).
func c23Step(tb c23TB, f *ClusterFSM, h *c23Hist, c c22Cmd) error {
	// what is recorded for the target of an add/update before it runs
	var target *NodeInfo
	var before NodeInfo
	existed := false
	if c.Raw == nil && (c.Type == CommandAddNode || c.Type == CommandUpdateNode) {
		var p AddNodePayload
		if json.Unmarshal([]byte(c.Payload), &p) == nil {
			target = &p.Node
			if old, ok := f.nodes[p.Node.ID]; ok {
				existed, before = true, *old
			}
		}
	}
	primaryBefore := f.primaryWriterID
	res := c22Apply(f, c)
	h.cmds = append(h.cmds, c)
	h.results = append(h.results, res)
	if class, msg := c23StateViolation(f); class != "" {
		c23Failf(tb, h, class, "after entry [%d] %s: %s", len(h.cmds)-1, c.Label, msg)
	}
	if target != nil && existed && res == nil && target.Role == before.Role && target.WriterState == "" {
		after, ok := f.nodes[target.ID]
		switch {
		case !ok:
			c23Failf(tb, h, "reregister-lost-node", "entry [%d] %s: node vanished", len(h.cmds)-1, c.Label)
		case f.primaryWriterID != primaryBefore:
			c23Failf(tb, h, "reregister-changed-assignment", "entry [%d] %s re-registered an existing node and primaryWriterID went %q -> %q", len(h.cmds)-1, c.Label, primaryBefore, f.primaryWriterID)
		case after.WriterState != before.WriterState:
			c23Failf(tb, h, "reregister-changed-assignment", "entry [%d] %s re-registered an existing node and its recorded writer state went %q -> %q (primaryWriterID=%q)",
				len(h.cmds)-1, c.Label, before.WriterState, after.WriterState, f.primaryWriterID)
		}
	}
	return res
}

// c23PromoteThenTouch: an ACCEPTED promote followed later by add/update/remove of
// the same id (part of the non-triviality rule).
func c23PromoteThenTouch(cmds []c22Cmd, results []error) bool {
	promoted := map[string]bool{}
	for i, c := range cmds {
		if c.Raw != nil || (i < len(results) && results[i] != nil) {
			continue
		}
		switch c.Type {
		case CommandPromoteWriter:
			var p PromoteWriterPayload
			if json.Unmarshal([]byte(c.Payload), &p) == nil && p.NodeID != "" {
				promoted[p.NodeID] = true
			}
		case CommandAddNode, CommandUpdateNode:
			var p AddNodePayload
			if json.Unmarshal([]byte(c.Payload), &p) == nil && promoted[p.Node.ID] {
				return true
			}
		case CommandRemoveNode:
			var p RemoveNodePayload
			if json.Unmarshal([]byte(c.Payload), &p) == nil && promoted[p.NodeID] {
				return true
			}
		}
	}
	return false
}

func c23Record(h *c23Hist, kind string, ghostPromote, cascade bool) {
	verifkit.Eval()
	verifkit.ClassN("entries", len(h.cmds))
	pt := c23PromoteThenTouch(h.cmds, h.results)
	if pt {
		verifkit.Class("seq_promote_then_touch_same_id")
	}
	if ghostPromote {
		verifkit.Class("seq_promote_unregistered")
	}
	if cascade {
		verifkit.Class("seq_with_cascade")
	}
	if pt || ghostPromote || cascade {
		verifkit.NonTrivial(c22SeqKey(h.cmds))
		if verifkit.SampleCount() < 3 && len(h.cmds) <= 12 {
			verifkit.Sample(map[string]any{"kind": kind, "entries": c22Labels(h.cmds), "promote_then_touch": pt, "promote_unregistered": ghostPromote, "cascade": cascade})
		}
	}
}

func c23IsGhostPromote(f *ClusterFSM, c c22Cmd) bool {
	if c.Raw != nil || c.Type != CommandPromoteWriter {
		return false
	}
	var p PromoteWriterPayload
	if json.Unmarshal([]byte(c.Payload), &p) != nil || p.NodeID == "" {
		return false
	}
	_, ok := f.nodes[p.NodeID]
	return !ok
}

// ---------------------------------------------------------------- random histories

func TestVerifC23_Histories(t *testing.T) {
	maxLen := verifkit.Scale(40, 60)
	rapid.Check(t, func(t *rapid.T) {
		f := c22NewFSM()
		g := c22NewGen(t, f)
		g.c23 = true
		g.wNode, g.wFile, g.wBatch, g.wToken, g.wRBAC, g.wMalformed, g.wRead = 10, 0, 0, 2, 8, 1, 0
		h := &c23Hist{}
		ghost, cascade := false, false
		if rapid.IntRange(0, 2).Draw(t, "prelude") == 0 {
			for _, c := range g.Prelude() {
				c23Step(t, f, h, c)
			}
		}
		n := rapid.IntRange(1, maxLen).Draw(t, "len")
		for i := 0; i < n; i++ {
			c := g.Next()
			if c23IsGhostPromote(f, c) {
				ghost = true
			}
			ent := c22EntityCount(f)
			c23Step(t, f, h, c)
			if ent-c22EntityCount(f) > 1 {
				cascade = true
			}
		}
		c23Record(h, "random", ghost, cascade)
	})
}

// ---------------------------------------------------------------- exhaustive: node/role commands

type c23NodeSym struct {
	cmd c22Cmd
	// exclusion predicate for open findings (nil = never excluded)
	excluded func(f *ClusterFSM) bool
}

func c23NodeAlphabet() []c23NodeSym {
	roles := map[string]string{"n1": "writer", "n2": "writer", "n3": "reader"}
	var out []c23NodeSym
	for _, id := range []string{"n1", "n2", "n3"} {
		id := id
		out = append(out,
			c23NodeSym{c22AddNode(c22NodeInfo(id, roles[id], "healthy", "", 2)), func(f *ClusterFSM) bool { return c23ReaddExcluded(f, id) }},
			c23NodeSym{c22RemoveNode(id), func(f *ClusterFSM) bool { return c23RemoveExcluded(f, id) }},
			c23NodeSym{c22Promote(id, ""), func(f *ClusterFSM) bool { return c23PromoteExcluded(f, id) }},
			c23NodeSym{c22Demote(id), nil},
		)
	}
	out = append(out, c23NodeSym{c22UpdateNode(c22NodeInfo("n1", "writer", "unhealthy", "", 4)), func(f *ClusterFSM) bool { return c23ReaddExcluded(f, "n1") }})
	return out
}

// TestVerifC23Enum_NodeCommands enumerates every sequence of length 1..L (L = 4
// quick, 6 thorough) over add/remove/promote/demote of three nodes (two writers, one
// reader) plus update of n1, replaying each sequence from an empty FSM and checking the
// invariant after the last entry (every proper prefix is itself an enumerated sequence).
// Subtrees that start with a shape excluded by an OPEN known finding are pruned and
// counted; the run is marked exhaustive only when nothing was pruned.
func TestVerifC23Enum_NodeCommands(t *testing.T) {
	alpha := c23NodeAlphabet()
	maxLen := verifkit.Scale(4, 6)
	shard, shards := c22Shard()
	count, pruned := 0, 0
	seq := make([]int, 0, maxLen)
	var rec func()
	rec = func() {
		for s := range alpha {
			if len(seq) == 0 && s%shards != shard {
				continue
			}
			// replay the prefix
			f := c22NewFSM()
			h := &c23Hist{}
			for i, k := range seq {
				c := alpha[k].cmd
				c.Index = uint64(i + 1)
				h.cmds = append(h.cmds, c)
				h.results = append(h.results, c22Apply(f, c))
			}
			if ex := alpha[s].excluded; ex != nil && ex(f) {
				pruned++
				continue
			}
			c := alpha[s].cmd
			c.Index = uint64(len(seq) + 1)
			ghost := c23IsGhostPromote(f, c)
			c23Step(t, f, h, c)
			count++
			verifkit.Eval()
			if ghost || (count%101 == 0 && c23PromoteThenTouch(h.cmds, h.results)) {
				verifkit.NonTrivial(c22SeqKey(h.cmds))
				if verifkit.SampleCount() < 2 {
					verifkit.Sample(map[string]any{"kind": "enumerated-nodes", "entries": c22Labels(h.cmds)})
				}
			}
			if len(seq)+1 < maxLen {
				seq = append(seq, s)
				rec()
				seq = seq[:len(seq)-1]
			}
		}
	}
	rec()
	verifkit.ClassN("enum_node_sequences", count)
	verifkit.ClassN("enum_node_subtrees_pruned_by_open_findings", pruned)
	verifkit.Note("c23_enum_nodes", map[string]any{"alphabet": len(alpha), "max_len": maxLen, "sequences_this_shard": count, "pruned_subtrees": pruned, "shard": shard, "shards": shards})
	if pruned == 0 {
		verifkit.Exhaustive()
	}
}

// ---------------------------------------------------------------- exhaustive: RBAC create/delete in every order

func c23Newest(f *ClusterFSM, kind string) int64 {
	if ex := c22Existing(f, kind); len(ex) > 0 {
		return ex[len(ex)-1]
	}
	return 1
}

type c23RBACSym struct {
	name string
	mk   func(f *ClusterFSM, idx uint64) c22Cmd
}

func c23RBACAlphabet() []c23RBACSym {
	return []c23RBACSym{
		{"create_org", func(f *ClusterFSM, i uint64) c22Cmd { return c22CreateOrg(fmt.Sprintf("org%d", i), "", c22BaseNano) }},
		{"create_team(newest org)", func(f *ClusterFSM, i uint64) c22Cmd {
			return c22CreateTeam(c23Newest(f, "org"), fmt.Sprintf("team%d", i), "", c22BaseNano)
		}},
		{"create_role(newest team)", func(f *ClusterFSM, i uint64) c22Cmd {
			return c22CreateRole(c23Newest(f, "team"), "db1", "read", c22BaseNano)
		}},
		{"create_mperm(newest role)", func(f *ClusterFSM, i uint64) c22Cmd {
			return c22CreateMPerm(c23Newest(f, "role"), "cpu", "read", c22BaseNano)
		}},
		{"create_token", func(f *ClusterFSM, i uint64) c22Cmd {
			return c22CreateToken(c22Token(fmt.Sprintf("tok%d", i), "h1", "p1", "read", c22BaseNano))
		}},
		{"add_member(newest token,newest team)", func(f *ClusterFSM, i uint64) c22Cmd {
			return c22AddMember(c23Newest(f, "token"), c23Newest(f, "team"), c22BaseNano)
		}},
		{"delete_org(oldest)", func(f *ClusterFSM, i uint64) c22Cmd { return c22DeleteOrg(c22First(f, "org")) }},
		{"delete_team(oldest)", func(f *ClusterFSM, i uint64) c22Cmd { return c22DeleteTeam(c22First(f, "team")) }},
		{"delete_role(oldest)", func(f *ClusterFSM, i uint64) c22Cmd { return c22DeleteRole(c22First(f, "role")) }},
		{"delete_mperm(oldest)", func(f *ClusterFSM, i uint64) c22Cmd { return c22DeleteMPerm(c22First(f, "mperm")) }},
		{"delete_token(oldest)", func(f *ClusterFSM, i uint64) c22Cmd { return c22DeleteToken(c22First(f, "token")) }},
		{"remove_member(oldest token,oldest team)", func(f *ClusterFSM, i uint64) c22Cmd {
			return c22RemoveMember(c22First(f, "token"), c22First(f, "team"))
		}},
	}
}

// TestVerifC23Enum_RBACOrders enumerates every sequence of length 1..L (L = 4 quick,
// 6 thorough) over the six RBAC/token create commands and the six delete commands
// (references resolved against the live state: create under the NEWEST parent, delete
// the OLDEST entity), checking after every entry that every child still has its parents.
func TestVerifC23Enum_RBACOrders(t *testing.T) {
	alpha := c23RBACAlphabet()
	maxLen := verifkit.Scale(4, 6)
	shard, shards := c22Shard()
	count := 0
	seq := make([]int, 0, maxLen)
	var rec func()
	rec = func() {
		for s := range alpha {
			if len(seq) == 0 && s%shards != shard {
				continue
			}
			f := c22NewFSM()
			h := &c23Hist{}
			for i, k := range seq {
				c := alpha[k].mk(f, uint64(i+1))
				c.Index = uint64(i + 1)
				h.cmds = append(h.cmds, c)
				h.results = append(h.results, c22Apply(f, c))
			}
			c := alpha[s].mk(f, uint64(len(seq)+1))
			c.Index = uint64(len(seq) + 1)
			ent := c22EntityCount(f)
			c23Step(t, f, h, c)
			count++
			verifkit.Eval()
			if ent-c22EntityCount(f) > 1 {
				verifkit.Class("enum_rbac_cascades")
				verifkit.NonTrivial(c22SeqKey(h.cmds))
				if verifkit.SampleCount() < 5 {
					verifkit.Sample(map[string]any{"kind": "enumerated-rbac", "entries": c22Labels(h.cmds), "entities_removed_by_last": ent - c22EntityCount(f)})
				}
			}
			if len(seq)+1 < maxLen {
				seq = append(seq, s)
				rec()
				seq = seq[:len(seq)-1]
			}
		}
	}
	rec()
	verifkit.ClassN("enum_rbac_sequences", count)
	verifkit.Note("c23_enum_rbac", map[string]any{"alphabet": len(alpha), "max_len": maxLen, "sequences_this_shard": count, "shard": shard, "shards": shards})
	verifkit.Exhaustive()
}

// ---------------------------------------------------------------- known-finding reproductions

func c23Seq(cmds ...c22Cmd) (*ClusterFSM, []error) {
	f := c22NewFSM()
	var res []error
	for i, c := range cmds {
		c.Index = uint64(i + 1)
		res = append(res, c22Apply(f, c))
	}
	return f, res
}

// promote of an id that is not registered: the command is refused ("node not
// found") AFTER primaryWriterID was set and the old primary was demoted.
func TestVerifKF_C23_promote_unregistered(t *testing.T) {
	f, res := c23Seq(c22Promote("ghost", ""))
	_, exists := f.nodes["ghost"]
	rep := res[0] != nil && f.primaryWriterID == "ghost" && !exists
	verifkit.KnownFinding(kfC23PromoteGhost, rep, "promote(ghost) on an empty FSM returns 'node ghost not found' but leaves primaryWriterID=\"ghost\"")
}

// a primary that re-joins (handleJoinRequest proposes AddNode without writer_state)
// loses its "primary" mark while primaryWriterID still names it.
func TestVerifKF_C23_readd_drops_writer_state(t *testing.T) {
	n1 := c22NodeInfo("n1", "writer", "healthy", "", 2)
	f, _ := c23Seq(c22AddNode(n1), c22Promote("n1", ""), c22AddNode(n1))
	n, ok := f.nodes["n1"]
	rep := ok && f.primaryWriterID == "n1" && n.WriterState != "primary"
	verifkit.KnownFinding(kfC23Readd, rep, "add_node(n1,writer); promote(n1); add_node(n1,writer) again: primaryWriterID=\"n1\" but n1.writer_state=\"\"")
}

// removing the primary leaves primaryWriterID pointing at a node that is gone.
func TestVerifKF_C23_remove_primary_dangling(t *testing.T) {
	f, _ := c23Seq(c22AddNode(c22NodeInfo("n1", "writer", "healthy", "", 2)), c22Promote("n1", ""), c22RemoveNode("n1"))
	_, ok := f.nodes["n1"]
	rep := !ok && f.primaryWriterID == "n1"
	verifkit.KnownFinding(kfC23RemovePrimary, rep, "add_node(n1,writer); promote(n1); remove_node(n1): primaryWriterID stays \"n1\"")
}
