//go:build verif

package cluster

import (
	"github.com/basekick-labs/arc/internal/cluster/replication"
	"github.com/basekick-labs/arc/internal/ingest"
	"github.com/rs/zerolog"
)

// VerifC32ReplicationIngestHandler returns the REAL replication ingest handler
// (Coordinator.buildReplicationIngestHandler) of a reader whose ingest buffer
// is buf. Test seam for /verif property C32; never part of a normal build.
func VerifC32ReplicationIngestHandler(buf *ingest.ArrowBuffer) replication.IngestHandler {
	c := &Coordinator{logger: zerolog.Nop()}
	c.SetIngestBuffer(buf)
	return c.buildReplicationIngestHandler()
}
