//go:build verif

package cluster

// C26 (handler level) - the REAL coordinator receive paths for the two message types
// that share the coordinator's nonce cache: handleReplicateSync (replication sync
// handshake) and handleForwardApply (forwarded applies), driven over net.Pipe with
// the nonce cache built by the expression Coordinator.Start uses (copied verbatim
// from coordinator.go by /verif/overlaygen/c26_pairs.py) and a fake clock in
// internal/cluster/security. Same timelines and oracle as the sequence-level part
// (kit/replaytl): each signed request accepted at most once, never outside the
// tolerance window. The timelines additionally interleave cluster-membership traffic
// for the senders (authenticated leave notifications through the real
// handleLeaveNotify, re-joins, replayed leaves); the oracle is unchanged - whatever
// the membership of the sender does, a signed request is single-use while fresh.

import (
	"fmt"
	"net"
	"strings"
	"testing"
	"time"

	"github.com/basekick-labs/arc/internal/cluster/protocol"
	"github.com/basekick-labs/arc/internal/cluster/security"
	"github.com/basekick-labs/arc/internal/config"
	"github.com/basekick-labs/arc/internal/verifkit"
	"github.com/basekick-labs/arc/internal/verifkit/replaytl"
	"github.com/rs/zerolog"
	"pgregory.net/rapid"
)

const kfC26TTLh = "C26-nonce-ttl-shorter-than-timestamp-lifetime"

const (
	c26hSecret  = "verif-cluster-secret"
	c26hCluster = "verif-cluster"
)

func c26hSites() []replaytl.Site {
	out := make([]replaytl.Site, 0, len(verifC26ClusterSites))
	for _, s := range verifC26ClusterSites {
		out = append(out, replaytl.Site{Type: s.Type, Cache: s.Cache, Origin: s.Origin, Tolerance: s.Tolerance, TTL: s.TTL, TolExpr: s.TolExpr, TTLExpr: s.TTLExpr})
	}
	return out
}

func c26hSign(m *replaytl.Msg) {
	switch m.Type {
	case "replicate-sync":
		m.MAC = security.ComputeReplicateSyncHMAC(c26hSecret, m.Nonce, m.Sender, c26hCluster, uint64(len(m.Payload)), m.TS)
	case "forward-apply":
		m.MAC = security.ComputeForwardHMAC(c26hSecret, m.Nonce, m.Sender, c26hCluster, []byte(m.Payload), m.TS)
	}
}

// c26hNewCoordinator: the fields the two handlers touch before and right after the
// auth + replay checks. No raft node and no replication sender, so a request that
// PASSES auth and replay protection is answered "raft_unavailable" / "not configured
// as a writer", and one that fails either is answered "auth" / "authentication failed".
//
// The registry holds the local node and both senders, so the coordinator can also
// process the cluster-membership traffic that is interleaved with the protected
// requests (authenticated leave notifications, re-joins after a restart).
func c26hNewCoordinator() *Coordinator {
	local := NewNode("local-node", "local-node", RoleWriter, c26hCluster)
	reg := NewRegistry(&RegistryConfig{LocalNode: local, Logger: zerolog.Nop()})
	for _, id := range []string{"node-a", "node-b"} {
		_ = reg.Register(NewNode(id, id, RoleWriter, c26hCluster))
	}
	return &Coordinator{
		cfg:        &config.ClusterConfig{SharedSecret: c26hSecret, ClusterName: c26hCluster},
		logger:     zerolog.Nop(),
		localNode:  local,
		registry:   reg,
		nonceCache: verifC26NewCoordinatorNonceCache(),
	}
}

// c26hMembership feeds one membership event to the real coordinator: a leave
// notification goes through handleLeaveNotify (HMAC + timestamp validated there; a
// stale or replayed-too-late one is simply ignored by it), a join re-registers the
// node as a restart does.
func c26hMembership(c *Coordinator, ev replaytl.Event) {
	switch ev.Kind {
	case "leave":
		c.handleLeaveNotify(&protocol.LeaveNotify{
			NodeID: ev.Node, Reason: "graceful shutdown", AuthNonce: ev.LeaveNonce, AuthTimestamp: ev.LeaveTS,
			AuthHMAC: security.ComputeHMAC(c26hSecret, security.MsgTypeLeave, ev.LeaveNonce, ev.Node, c26hCluster, ev.LeaveTS),
		})
	case "join":
		_ = c.registry.Register(NewNode(ev.Node, ev.Node, RoleWriter, c26hCluster))
	}
}

// c26hDeliver sends one request through the real handler and reports whether it
// got past authentication and replay protection.
func c26hDeliver(c *Coordinator, m *replaytl.Msg) (bool, error) {
	srv, cli := net.Pipe()
	defer srv.Close()
	type reply struct {
		msg *protocol.Message
		err error
	}
	ch := make(chan reply, 1)
	go func() {
		msg, err := protocol.ReceiveMessage(cli, 30*time.Second)
		cli.Close()
		ch <- reply{msg, err}
	}()
	switch m.Type {
	case "replicate-sync":
		c.handleReplicateSync(srv, &protocol.ReplicateSync{ReaderID: m.Sender, LastKnownSequence: uint64(len(m.Payload)),
			Nonce: m.Nonce, ClusterName: c26hCluster, Timestamp: m.TS, HMAC: m.MAC})
	case "forward-apply":
		c.handleForwardApply(srv, &protocol.ForwardApplyRequest{CommandJSON: []byte(m.Payload), NodeID: m.Sender,
			Nonce: m.Nonce, Timestamp: m.TS, HMAC: m.MAC})
	default:
		return false, fmt.Errorf("unknown type %q", m.Type)
	}
	srv.Close()
	r := <-ch
	if r.err != nil {
		return false, fmt.Errorf("no reply from handler: %v", r.err)
	}
	switch ack := r.msg.Payload.(type) {
	case *protocol.ReplicateSyncAck:
		return ack.Error != "authentication failed", nil
	case *protocol.ForwardApplyAck:
		return ack.Code != protocol.ForwardCodeAuth, nil
	}
	return false, fmt.Errorf("unexpected reply payload %T", r.msg.Payload)
}

func TestVerifC26_Handlers(t *testing.T) {
	defer security.VerifSetClock(time.Time{})
	sites := c26hSites()
	if len(sites) == 0 {
		t.Fatalf("harness: no coordinator call sites extracted")
	}
	excl := verifkit.Excluded(kfC26TTLh)
	rapid.Check(t, func(t *rapid.T) {
		tl := replaytl.Gen(t, sites, nil)
		tl.AddMembership(t)
		for _, m := range tl.Msgs {
			c26hSign(m)
		}
		security.VerifSetClock(time.Unix(0, tl.CacheBorn))
		c := c26hNewCoordinator()
		var herr error
		res := tl.Run(excl, func(ns int64) { security.VerifSetClock(time.Unix(0, ns)) },
			func(m *replaytl.Msg, _ time.Duration) bool {
				ok, err := c26hDeliver(c, m)
				if err != nil && herr == nil {
					herr = err
				}
				return ok
			}, func(ev replaytl.Event) { c26hMembership(c, ev) })
		if herr != nil {
			t.Fatalf("harness: %v", herr)
		}
		for i := 0; i < res.Excluded; i++ {
			verifkit.CountExcluded(kfC26TTLh)
		}
		if res.FailClass != "" {
			t.Fatalf("VERIF-FAIL class=C26/handler-%s %s\n%s", res.FailClass, res.FailText, res.Describe(tl))
		}
		verifkit.Eval()
		verifkit.Class("handler/" + tl.Site.Type)
		if res.Membership > 0 {
			verifkit.Class("handler/with-membership-traffic")
		}
		if res.NonTrivial {
			verifkit.NonTrivial("handler|" + strings.Join(res.Log, "|"))
			verifkit.Class("handler/replay-inside-window/" + tl.Site.Type)
			if verifkit.SampleCount() < 2 {
				verifkit.Sample(map[string]any{"level": "real coordinator handlers", "type": tl.Site.Type, "timeline": res.Log})
			}
		}
	})
}
