//go:build verif

package cluster

// C25 companion: the honest peer is the PRODUCTION server. A bare Coordinator
// (as in filereplication_integration_test.go: cfg + storage + an un-started
// raft.Node over a ClusterFSM holding the manifest entry) serves MsgFetchFile
// through the real Coordinator.handleFetchFile; a byte-mangling net.Conn between
// the handler and the socket truncates / corrupts the response stream. The
// replica side is the real filereplication.Puller + FetchClient + LocalBackend.
//
// Oracle = the one of harness/internal/cluster/filereplication/zz_c25_verif_test.go:
//   S1 final path absent or exactly the manifest bytes at every observation;
//   S2 pulled+skipped_local of a run == files that really are in place;
//   S3 FullyCaughtUp() never true while the manifest file is missing;
//   L1 two fault-free runs leave the file in place.

import (
	"context"
	"crypto/sha256"
	"encoding/binary"
	"encoding/hex"
	"encoding/json"
	"fmt"
	"io"
	"net"
	"os"
	"path/filepath"
	"sync"
	"testing"
	"time"

	"github.com/basekick-labs/arc/internal/cluster/filereplication"
	"github.com/basekick-labs/arc/internal/cluster/protocol"
	"github.com/basekick-labs/arc/internal/cluster/raft"
	"github.com/basekick-labs/arc/internal/config"
	"github.com/basekick-labs/arc/internal/storage"
	"github.com/basekick-labs/arc/internal/verifkit"
	hraft "github.com/hashicorp/raft"
	"github.com/rs/zerolog"
	"pgregory.net/rapid"
)

const (
	kfC25bStalePart = "C25-stale-part-counted-present"
	c25bSecret      = "c25b-secret"
	c25bCluster     = "c25b-cluster"
	c25bSelf        = "reader-1"
	c25bOrigin      = "writer-1"
	c25bDead        = "127.0.0.1:1"
)

// one attempt = what happens to the origin's response stream
type c25bOutcome struct {
	Kind string `json:"kind"` // pass | truncbody | corruptbody | trunchdr | corrupthdr | missing | dialfail
	K    int    `json:"k,omitempty"`
}

type c25bCase struct {
	Size    int           `json:"size"`
	Seed    uint64        `json:"seed"`
	Retry   int           `json:"retry_max_attempts"`
	CatchUp bool          `json:"first_run_is_catchup"`
	Script  []c25bOutcome `json:"script"`
}

func (c c25bCase) Key() string { b, _ := json.Marshal(c); return string(b) }

func c25bBytes(seed uint64, n int) []byte {
	b := make([]byte, n)
	x := seed*0x9E3779B97F4A7C15 + 99
	for i := 0; i < n; i += 8 {
		x ^= x << 13
		x ^= x >> 7
		x ^= x << 17
		var w [8]byte
		binary.LittleEndian.PutUint64(w[:], x)
		copy(b[i:], w[:])
	}
	return b
}

// c25bConn mangles what the real handler writes: the first frame is the ack
// header ([4-byte len][type][json]); everything after it is the raw body.
type c25bConn struct {
	net.Conn
	o       c25bOutcome
	written int // bytes of the response stream so far
	hdrLen  int // 4 + frame length once the first 4 bytes were seen
	lenBuf  []byte
	dead    bool
}

func (c *c25bConn) Write(p []byte) (int, error) {
	if c.dead {
		return 0, io.ErrClosedPipe
	}
	out := append([]byte(nil), p...)
	for i := range out {
		pos := c.written + i
		if pos < 4 {
			c.lenBuf = append(c.lenBuf, out[i])
			if len(c.lenBuf) == 4 {
				c.hdrLen = 4 + int(binary.BigEndian.Uint32(c.lenBuf))
			}
		}
		var cut, flip bool
		switch c.o.Kind {
		case "trunchdr":
			cut = pos >= 5+c.o.K%8 // inside the JSON of the ack
		case "corrupthdr":
			flip = pos == 5+c.o.K%24
		case "truncbody":
			cut = c.hdrLen > 0 && pos >= c.hdrLen+c.o.K
		case "corruptbody":
			flip = c.hdrLen > 0 && pos == c.hdrLen+c.o.K
		}
		if flip {
			out[i] ^= 0xFF
		}
		if cut {
			n, _ := c.Conn.Write(out[:i])
			c.written += n
			c.dead = true
			c.Conn.Close()
			return n, io.ErrClosedPipe
		}
	}
	n, err := c.Conn.Write(out)
	c.written += n
	return n, err
}

type c25bHarness struct {
	mu      sync.Mutex
	viol    string
	class   string
	base    string
	path    string
	sha     string
	size    int
	calls   int
	script  []c25bOutcome
	cur     c25bOutcome
	addr    string
	origin  *storage.LocalBackend
	body    []byte
	tainted bool
	history []string
}

func (h *c25bHarness) fail(class, f string, a ...any) {
	h.mu.Lock()
	if h.class == "" {
		h.class, h.viol = class, fmt.Sprintf(f, a...)
	}
	h.mu.Unlock()
}

func (h *c25bHarness) state() (present, correct bool, part int64) {
	part = -1
	fp := filepath.Join(h.base, filepath.FromSlash(h.path))
	if st, err := os.Stat(fp + ".part"); err == nil {
		part = st.Size()
	}
	data, err := os.ReadFile(fp)
	if err != nil {
		return false, false, part
	}
	sum := sha256.Sum256(data)
	return true, hex.EncodeToString(sum[:]) == h.sha, part
}

func (h *c25bHarness) checkS1(where string) {
	pr, ok, part := h.state()
	if pr && !ok {
		h.fail("C25/bad-bytes-at-final-path", "%s: final path holds bytes that are not the manifest content", where)
	}
	if !pr && part == int64(h.size) && verifkit.Excluded(kfC25bStalePart) {
		h.mu.Lock()
		h.tainted = true
		h.mu.Unlock()
	}
}

func (h *c25bHarness) ResolvePeers(_, _ string) []string {
	h.checkS1("before attempt")
	h.mu.Lock()
	defer h.mu.Unlock()
	h.cur = c25bOutcome{Kind: "pass"}
	if h.calls < len(h.script) {
		h.cur = h.script[h.calls]
	}
	h.calls++
	h.history = append(h.history, fmt.Sprintf("attempt#%d %+v", h.calls-1, h.cur))
	// the origin holds the file except while a "missing" outcome is served
	if h.cur.Kind == "missing" {
		_ = h.origin.Delete(context.Background(), h.path)
	} else {
		_ = h.origin.Write(context.Background(), h.path, h.body)
	}
	if h.cur.Kind == "dialfail" {
		return []string{c25bDead}
	}
	return []string{h.addr}
}

type c25bBackend struct {
	*storage.LocalBackend
	h *c25bHarness
}

func (b *c25bBackend) WriteReader(ctx context.Context, path string, r io.Reader, size int64) error {
	err := b.LocalBackend.WriteReader(ctx, path, r, size)
	b.h.checkS1("after WriteReader")
	return err
}
func (b *c25bBackend) AppendReader(ctx context.Context, path string, r io.Reader, n int64) error {
	err := b.LocalBackend.AppendReader(ctx, path, r, n)
	b.h.checkS1("after AppendReader")
	return err
}
func (b *c25bBackend) Delete(ctx context.Context, path string) error {
	b.h.checkS1("before Delete")
	return b.LocalBackend.Delete(ctx, path)
}

type c25bResult struct {
	Class   string           `json:"class,omitempty"`
	Detail  string           `json:"detail,omitempty"`
	Stats   map[string]int64 `json:"stats"`
	History []string         `json:"history"`
	Tainted bool             `json:"tainted"`
}

func c25bRun(c c25bCase) c25bResult {
	root, err := os.MkdirTemp("", "c25b-")
	if err != nil {
		panic(err)
	}
	defer os.RemoveAll(root)
	originDir, replicaDir := filepath.Join(root, "origin"), filepath.Join(root, "replica")
	ob, err := storage.NewLocalBackend(originDir, zerolog.Nop())
	if err != nil {
		panic(err)
	}
	rb, err := storage.NewLocalBackend(replicaDir, zerolog.Nop())
	if err != nil {
		panic(err)
	}
	body := c25bBytes(c.Seed, c.Size)
	sum := sha256.Sum256(body)
	entry := raft.FileEntry{Path: "db/cpu/2026/04/11/14/c25b.parquet", SHA256: hex.EncodeToString(sum[:]), SizeBytes: int64(c.Size),
		Database: "db", Measurement: "cpu", PartitionTime: time.Date(2026, 4, 11, 14, 0, 0, 0, time.UTC), OriginNodeID: c25bOrigin,
		Tier: "hot", CreatedAt: time.Date(2026, 4, 11, 15, 0, 0, 0, time.UTC)}
	h := &c25bHarness{base: replicaDir, path: entry.Path, sha: entry.SHA256, size: c.Size, script: c.Script, origin: ob, body: body}

	// origin: real handler over a manifest that knows the file
	fsm := raft.NewClusterFSM(zerolog.Nop())
	payload, _ := json.Marshal(raft.RegisterFilePayload{File: entry})
	data, _ := json.Marshal(raft.Command{Type: raft.CommandRegisterFile, Payload: payload})
	if e, ok := fsm.Apply(&hraft.Log{Index: 1, Data: data}).(error); ok && e != nil {
		panic(e)
	}
	rn, err := raft.NewNode(&raft.NodeConfig{NodeID: c25bOrigin, DataDir: filepath.Join(root, "raft"), BindAddr: "127.0.0.1:0", Logger: zerolog.Nop()}, fsm)
	if err != nil {
		panic(err)
	}
	ctx, cancel := context.WithCancel(context.Background())
	defer cancel()
	coord := &Coordinator{cfg: &config.ClusterConfig{SharedSecret: c25bSecret, ClusterName: c25bCluster}, storage: ob, raftNode: rn,
		localNode: NewNode(c25bOrigin, c25bOrigin, RoleWriter, c25bCluster), logger: zerolog.Nop(), ctx: ctx}
	ln, err := net.Listen("tcp", "127.0.0.1:0")
	if err != nil {
		panic(err)
	}
	h.addr = ln.Addr().String()
	var wg sync.WaitGroup
	wg.Add(1)
	go func() {
		defer wg.Done()
		for {
			conn, err := ln.Accept()
			if err != nil {
				return
			}
			wg.Add(1)
			go func() {
				defer wg.Done()
				msg, err := protocol.ReceiveMessage(conn, 20*time.Second)
				if err != nil || msg.Type != protocol.MsgFetchFile {
					conn.Close()
					return
				}
				h.mu.Lock()
				o := h.cur
				h.mu.Unlock()
				coord.handleFetchFile(&c25bConn{Conn: conn, o: o}, msg.Payload.(*protocol.FetchFileRequest))
			}()
		}
	}()
	defer func() { ln.Close(); wg.Wait() }()

	fc, err := filereplication.NewFetchClient(filereplication.FetchClient{SelfNodeID: c25bSelf, ClusterName: c25bCluster, SharedSecret: c25bSecret,
		DialTimeout: 5 * time.Second, ResponseHeaderTimeout: 30 * time.Second})
	if err != nil {
		panic(err)
	}
	p, err := filereplication.New(filereplication.Config{SelfNodeID: c25bSelf, Backend: &c25bBackend{LocalBackend: rb, h: h}, Fetcher: fc,
		PeerResolver: h, Workers: 1, QueueSize: 8, RetryMaxAttempts: c.Retry, RetryInitialBackoff: time.Millisecond,
		FetchTimeout: 120 * time.Second, Logger: zerolog.Nop()})
	if err != nil {
		panic(err)
	}
	p.Start(ctx)
	defer p.Stop()

	idle := func() bool {
		deadline := time.Now().Add(180 * time.Second)
		nap := 50 * time.Microsecond
		for {
			st := p.Stats()
			if st["inflight_count"] == 0 && st["queue_depth"] == 0 && st["catchup_inflight"] == 0 {
				return true
			}
			if time.Now().After(deadline) {
				return false
			}
			time.Sleep(nap)
			if nap < 2*time.Millisecond {
				nap += nap / 2
			}
		}
	}
	clean := 0
	for run := 0; run < len(c.Script)+4 && clean < 2 && h.class == ""; run++ {
		h.mu.Lock()
		isClean := h.calls >= len(h.script)
		h.mu.Unlock()
		if pr, ok, _ := h.state(); pr && ok {
			isClean = true
		}
		before := p.Stats()
		if run == 0 && c.CatchUp {
			sent := false
			p.RunCatchUp(ctx, func(string, int) ([]*raft.FileEntry, string, error) {
				if sent {
					return nil, "", nil
				}
				sent = true
				return []*raft.FileEntry{&entry}, "", nil
			})
		} else {
			p.Enqueue(&entry)
		}
		if !idle() {
			h.fail("C25/harness-timeout", "puller not idle after 180 s (stats %v)", p.Stats())
			break
		}
		// inflight_count drops before the catch-up tag is cleared; re-check once settled
		idle()
		after := p.Stats()
		h.checkS1(fmt.Sprintf("after run %d", run))
		pr, ok, part := h.state()
		good := int64(0)
		if pr && ok {
			good = 1
		}
		h.mu.Lock()
		tainted := h.tainted
		h.history = append(h.history, fmt.Sprintf("run %d clean=%v present=%v correct=%v part=%d stats=%v", run, isClean, pr, ok, part, after))
		h.mu.Unlock()
		if !tainted {
			claimed := after["pulled"] - before["pulled"] + after["skipped_local"] - before["skipped_local"]
			if claimed != good {
				h.fail("C25/counted-present-while-missing", "run %d: puller counted %d file(s) present (pulled %d, skipped_local %d) but the final path is present=%v correct=%v (.part=%d)",
					run, claimed, after["pulled"]-before["pulled"], after["skipped_local"]-before["skipped_local"], pr, ok, part)
			}
			if c.CatchUp && p.FullyCaughtUp() && good != 1 {
				h.fail("C25/caught-up-while-missing", "run %d: FullyCaughtUp()=true while the manifest file is not at its final path", run)
			}
		}
		if isClean {
			clean++
		}
	}
	h.mu.Lock()
	tainted := h.tainted
	h.mu.Unlock()
	if h.class == "" && !tainted && clean >= 2 {
		if pr, ok, part := h.state(); !pr || !ok {
			h.fail("C25/no-convergence", "file not in place after two fault-free runs against the real server (present=%v correct=%v part=%d)", pr, ok, part)
		}
	}
	h.mu.Lock()
	defer h.mu.Unlock()
	return c25bResult{Class: h.class, Detail: h.viol, Stats: p.Stats(), History: append([]string(nil), h.history...), Tainted: h.tainted}
}

func TestVerifC25_RealServer(t *testing.T) {
	deadOK := false
	if c, err := net.DialTimeout("tcp", c25bDead, 2*time.Second); err != nil {
		deadOK = true
	} else {
		c.Close()
	}
	rapid.Check(t, func(t *rapid.T) {
		c := c25bCase{
			Size:    rapid.SampledFrom([]int{1, 2, 16, 64, 4096, 4096, 4096, 65536}).Draw(t, "size"),
			Seed:    rapid.Uint64().Draw(t, "seed"),
			Retry:   rapid.IntRange(1, 4).Draw(t, "retry"),
			CatchUp: rapid.Bool().Draw(t, "catchup"),
		}
		n := rapid.IntRange(0, 6).Draw(t, "nattempts")
		damaging := false
		for i := 0; i < n; i++ {
			o := c25bOutcome{Kind: rapid.SampledFrom([]string{"pass", "pass", "truncbody", "truncbody", "truncbody", "corruptbody", "corruptbody",
				"trunchdr", "corrupthdr", "missing", "dialfail"}).Draw(t, "kind")}
			if o.Kind == "dialfail" && !deadOK {
				o.Kind = "trunchdr"
			}
			switch o.Kind {
			case "truncbody", "corruptbody":
				o.K = rapid.IntRange(0, c.Size-1).Draw(t, "k")
				damaging = true
			case "trunchdr", "corrupthdr":
				o.K = rapid.IntRange(0, 23).Draw(t, "k")
			}
			c.Script = append(c.Script, o)
		}
		verifkit.Eval()
		for _, o := range c.Script {
			verifkit.Class("real-server:" + o.Kind)
		}
		if damaging {
			verifkit.NonTrivial(c.Key())
			if verifkit.SampleCount() < 2 {
				verifkit.Sample(c)
			}
		}
		r := c25bRun(c)
		if r.Tainted {
			verifkit.CountExcluded(kfC25bStalePart)
		}
		if r.Class != "" {
			p := verifkit.WriteReplay("c25-realserver-history", map[string]any{"case": c, "result": r})
			t.Fatalf("VERIF-FAIL class=%s %s\ncase=%s\nhistory=%v\nreplay=%s", r.Class, r.Detail, c.Key(), r.History, p)
		}
	})
}
