//go:build verif

package filereplication

// C25 - Peer file replication never exposes a bad file and converges.
//
// Real Puller + real FetchClient + real storage.LocalBackend against a scripted
// fake peer that speaks the fetch protocol on loopback TCP through the real
// internal/cluster/protocol codec (so every fault is real bytes on a socket).
// The fake peer's honest path mirrors Coordinator.handleFetchFile step by step
// (HMAC validation with the real validator, offset validation, ack header with
// tail size + whole-file hash + offset echo, raw body).
//
// Oracle (see c25Check*):
//   S1  at every observation point (after every backend mutation made by the
//       puller, before every attempt, after every run) the final path is absent
//       or holds exactly the manifest bytes;
//   S2  per run, the number of files the puller counted as present
//       (pulled + skipped_local) equals the number of enqueued files that hold
//       the right bytes at their final path, and pulled+skipped+failed accounts
//       for every enqueued file;
//   S3  FullyCaughtUp()/CatchUpStatus never report the catch-up batch complete
//       while a manifest file (origin != self) is missing at its final path;
//   L1  once the scripted faults are exhausted (peer answers honestly), at most
//       two further runs leave every manifest file present and correct.

import (
	"context"
	"crypto/sha256"
	"encoding/binary"
	"encoding/hex"
	"encoding/json"
	"fmt"
	"io"
	"net"
	"os"
	"path/filepath"
	"sync"
	"testing"
	"time"

	"github.com/basekick-labs/arc/internal/cluster/protocol"
	"github.com/basekick-labs/arc/internal/cluster/raft"
	"github.com/basekick-labs/arc/internal/cluster/security"
	"github.com/basekick-labs/arc/internal/storage"
	"github.com/basekick-labs/arc/internal/verifkit"
	"github.com/rs/zerolog"
	"pgregory.net/rapid"
)

const (
	// open known findings (see /verif/findings/C25.json)
	kfC25StalePart = "C25-stale-part-counted-present"
	kfC25NoPeers   = "C25-no-peers-gate-opens"

	c25Secret  = "c25-shared-secret"
	c25Cluster = "c25-cluster"
	c25Self    = "reader-1"
	c25Origin  = "writer-1"
	// nothing listens on tcpmux in the sandbox; verified at start-up by c25DeadAddrOK
	c25DeadAddr = "127.0.0.1:1"
)

// ---------------------------------------------------------------- case model

type c25Outcome struct {
	Kind string `json:"kind"`
	K    int    `json:"k,omitempty"`    // truncate after K%tail body bytes
	J    int    `json:"j,omitempty"`    // corrupt body byte J%len(sent)
	Code string `json:"code,omitempty"` // error-ack code / variant
}

// c25Attempt is what the peers do during ONE processEntry attempt (one
// ResolvePeers call): NoPeers -> resolver returns no candidates; otherwise one
// outcome per candidate peer, tried in order by the puller.
type c25Attempt struct {
	NoPeers bool         `json:"no_peers,omitempty"`
	Peers   []c25Outcome `json:"peers,omitempty"`
}

type c25File struct {
	Path       string       `json:"path"`
	Size       int          `json:"size"`
	Seed       uint64       `json:"seed"`
	SelfOrigin bool         `json:"self_origin,omitempty"`
	Pre        string       `json:"pre"` // none | part-prefix | part-wrong | part-full-wrong | part-full-right | final
	PreLen     int          `json:"pre_len,omitempty"`
	Script     []c25Attempt `json:"script"`
}

type c25Case struct {
	Files   []c25File `json:"files"`
	Retry   int       `json:"retry_max_attempts"`
	Workers int       `json:"workers"`
	CatchUp bool      `json:"first_run_is_catchup"`
}

func (c c25Case) Key() string { b, _ := json.Marshal(c); return string(b) }

func c25Bytes(seed uint64, n int) []byte {
	b := make([]byte, n)
	x := seed*0x9E3779B97F4A7C15 + 0x1234567
	for i := 0; i < n; i += 8 {
		x ^= x << 13
		x ^= x >> 7
		x ^= x << 17
		var w [8]byte
		binary.LittleEndian.PutUint64(w[:], x)
		copy(b[i:], w[:])
	}
	return b
}

// ---------------------------------------------------------------- harness state

type c25FileState struct {
	spec    c25File
	body    []byte
	sha     string
	entry   *raft.FileEntry
	mu      sync.Mutex
	calls   int         // ResolvePeers calls so far
	current *c25Attempt // attempt being served (nil -> honest)
	served  int         // requests that reached a peer
	tainted bool        // reached the shape of an open known finding
}

type c25Violation struct {
	Class  string `json:"class"`
	Detail string `json:"detail"`
}

type c25Harness struct {
	base    string
	files   map[string]*c25FileState
	order   []string
	lns     [2]net.Listener
	wg      sync.WaitGroup
	mu      sync.Mutex
	viol    *c25Violation
	history []string
}

func (h *c25Harness) logf(format string, a ...any) {
	h.mu.Lock()
	if len(h.history) < 400 {
		h.history = append(h.history, fmt.Sprintf(format, a...))
	}
	h.mu.Unlock()
}

func (h *c25Harness) fail(class, format string, a ...any) {
	h.mu.Lock()
	if h.viol == nil {
		h.viol = &c25Violation{Class: class, Detail: fmt.Sprintf(format, a...)}
	}
	h.mu.Unlock()
}

func (h *c25Harness) violation() *c25Violation {
	h.mu.Lock()
	defer h.mu.Unlock()
	return h.viol
}

func (h *c25Harness) finalPath(p string) string { return filepath.Join(h.base, filepath.FromSlash(p)) }

// finalState: present? correct? ; partSize = -1 when no staging file.
func (h *c25Harness) finalState(fs *c25FileState) (present, correct bool, partSize int64) {
	partSize = -1
	if st, err := os.Stat(h.finalPath(fs.spec.Path) + ".part"); err == nil {
		partSize = st.Size()
	}
	data, err := os.ReadFile(h.finalPath(fs.spec.Path))
	if err != nil {
		return false, false, partSize
	}
	sum := sha256.Sum256(data)
	return true, hex.EncodeToString(sum[:]) == fs.sha && len(data) == fs.spec.Size, partSize
}

// checkS1 is the safety observation: final path absent or exactly the manifest bytes.
func (h *c25Harness) checkS1(path, where string) {
	fs := h.files[path]
	if fs == nil {
		return
	}
	present, correct, part := h.finalState(fs)
	if present && !correct {
		data, _ := os.ReadFile(h.finalPath(path))
		h.fail("C25/bad-bytes-at-final-path", "%s: %s holds %d bytes that are not the manifest content (size %d sha %s)",
			where, path, len(data), fs.spec.Size, fs.sha[:12])
	}
	if !present && part == int64(fs.spec.Size) && verifkit.Excluded(kfC25StalePart) {
		fs.mu.Lock()
		fs.tainted = true
		fs.mu.Unlock()
	}
}

// c25Backend wraps the real LocalBackend only to observe the final path around
// every mutation the puller makes (all behaviour is the embedded backend's).
type c25Backend struct {
	*storage.LocalBackend
	h *c25Harness
}

func (b *c25Backend) WriteReader(ctx context.Context, path string, r io.Reader, size int64) error {
	err := b.LocalBackend.WriteReader(ctx, path, r, size)
	b.h.checkS1(path, "after WriteReader")
	return err
}

func (b *c25Backend) AppendReader(ctx context.Context, path string, r io.Reader, n int64) error {
	err := b.LocalBackend.AppendReader(ctx, path, r, n)
	b.h.checkS1(path, "after AppendReader")
	return err
}

func (b *c25Backend) Delete(ctx context.Context, path string) error {
	b.h.checkS1(path, "before Delete")
	return b.LocalBackend.Delete(ctx, path)
}

var _ storage.AppendingBackend = (*c25Backend)(nil)

// ---------------------------------------------------------------- fake peer

func (h *c25Harness) ResolvePeers(origin, path string) []string {
	fs := h.files[path]
	if fs == nil {
		h.fail("C25/harness", "resolver asked for unknown path %q", path)
		return nil
	}
	h.checkS1(path, "before attempt")
	fs.mu.Lock()
	defer fs.mu.Unlock()
	n := fs.calls
	fs.calls++
	if fs.spec.SelfOrigin {
		h.fail("C25/self-origin-fetched", "puller resolved peers for %s whose origin is the local node", path)
	}
	if n >= len(fs.spec.Script) {
		fs.current = nil
		h.logf("%s attempt#%d honest", path, n)
		return []string{h.lns[0].Addr().String()}
	}
	at := fs.spec.Script[n]
	fs.current = &at
	h.logf("%s attempt#%d %+v", path, n, at)
	if at.NoPeers {
		return nil
	}
	var addrs []string
	for i, o := range at.Peers {
		if o.Kind == "dialfail" {
			addrs = append(addrs, c25DeadAddr)
		} else {
			addrs = append(addrs, h.lns[i].Addr().String())
		}
	}
	return addrs
}

func (h *c25Harness) serve(idx int) {
	defer h.wg.Done()
	for {
		conn, err := h.lns[idx].Accept()
		if err != nil {
			return
		}
		h.wg.Add(1)
		go func() {
			defer h.wg.Done()
			defer conn.Close()
			h.handle(idx, conn)
		}()
	}
}

func c25SendAck(conn net.Conn, ack *protocol.FetchFileAckHeader) {
	_ = protocol.SendMessage(conn, &protocol.Message{Type: protocol.MsgFetchFileAck, Payload: ack}, 10*time.Second)
}

func (h *c25Harness) handle(idx int, conn net.Conn) {
	msg, err := protocol.ReceiveMessage(conn, 20*time.Second)
	if err != nil || msg.Type != protocol.MsgFetchFile {
		return
	}
	req := msg.Payload.(*protocol.FetchFileRequest)
	fs := h.files[req.Path]
	if fs == nil {
		c25SendAck(conn, &protocol.FetchFileAckHeader{Status: "error", Code: protocol.AckCodeManifest, Error: protocol.ErrMsgFileNotInManifest})
		return
	}
	fs.mu.Lock()
	fs.served++
	var o c25Outcome
	if fs.current == nil || idx >= len(fs.current.Peers) {
		o = c25Outcome{Kind: "success"}
	} else {
		o = fs.current.Peers[idx]
	}
	fs.mu.Unlock()
	h.logf("%s peer%d offset=%d outcome=%+v", req.Path, idx, req.ByteOffset, o)

	if o.Kind == "closeearly" {
		return
	}
	// --- the honest server's steps (Coordinator.handleFetchFile) ---
	if err := security.ValidateFetchHMAC(c25Secret, req.Nonce, req.NodeID, c25Cluster, req.Path,
		req.Timestamp, req.HMAC, security.HMACTimestampTolerance); err != nil {
		c25SendAck(conn, &protocol.FetchFileAckHeader{Status: "error", Code: protocol.AckCodeAuth, Error: "authentication failed"})
		return
	}
	switch o.Kind {
	case "errack":
		c25SendAck(conn, &protocol.FetchFileAckHeader{Status: "error", Code: protocol.AckErrorCode(o.Code), Error: "scripted failure"})
		return
	case "notonpeer":
		ack := &protocol.FetchFileAckHeader{Status: "error"}
		switch o.Code {
		case "manifest":
			ack.Code, ack.Error = protocol.AckCodeManifest, protocol.ErrMsgFileNotInManifest
		case "phase2":
			ack.Error = protocol.ErrMsgFileNotFound
		default:
			ack.Code, ack.Error = protocol.AckCodeNotFound, protocol.ErrMsgFileNotFound
		}
		c25SendAck(conn, ack)
		return
	case "badoffset":
		c25SendAck(conn, &protocol.FetchFileAckHeader{Status: "error", Code: protocol.AckCodeBadOffset, Error: "scripted bad offset"})
		return
	case "garbage":
		// a frame of the right type whose payload is not JSON
		_, _ = conn.Write([]byte{0, 0, 0, 4, byte(protocol.MsgFetchFileAck), '{', '{', '{'})
		return
	}
	size := int64(fs.spec.Size)
	off := req.ByteOffset
	if off < 0 || off >= size {
		c25SendAck(conn, &protocol.FetchFileAckHeader{Status: "error", Code: protocol.AckCodeBadOffset,
			Error: fmt.Sprintf("invalid byte offset %d for file size %d", off, size)})
		return
	}
	tail := fs.body[off:]
	ack := &protocol.FetchFileAckHeader{Status: "ok", SizeBytes: int64(len(tail)), SHA256: fs.sha, ByteOffset: off}
	send := tail
	switch o.Kind {
	case "wrongsize":
		switch o.Code {
		case "minus":
			ack.SizeBytes--
		case "zero":
			ack.SizeBytes = 0
		default:
			ack.SizeBytes++
		}
	case "wronghash":
		other := sha256.Sum256(append([]byte("x"), fs.body...))
		ack.SHA256 = hex.EncodeToString(other[:])
	case "wrongoffset":
		ack.ByteOffset = off + 1
	case "truncate":
		send = tail[:o.K%len(tail)]
	case "corrupt", "corrupttrunc":
		if o.Kind == "corrupttrunc" && len(tail) > 1 {
			send = tail[:1+o.K%(len(tail)-1)]
		}
		cp := append([]byte(nil), send...)
		cp[o.J%len(cp)] ^= 0xFF
		send = cp
	}
	c25SendAck(conn, ack)
	_ = conn.SetWriteDeadline(time.Now().Add(60 * time.Second))
	_, _ = conn.Write(send)
}

var (
	c25DeadOnce sync.Once
	c25DeadOK   bool
)

// c25DeadAddrOK reports whether dialing the dead address really fails.
func c25DeadAddrOK() bool {
	c25DeadOnce.Do(func() {
		c, err := net.DialTimeout("tcp", c25DeadAddr, 2*time.Second)
		if err != nil {
			c25DeadOK = true
			return
		}
		c.Close()
	})
	return c25DeadOK
}

// ---------------------------------------------------------------- running a case

type c25Result struct {
	Viol     *c25Violation     `json:"violation"`
	Stats    map[string]int64  `json:"stats"`
	CaughtUp bool              `json:"fully_caught_up"`
	Present  map[string]string `json:"final_paths"`
	History  []string          `json:"history"`
	Tainted  bool              `json:"tainted_by_open_finding"`
	Runs     int               `json:"runs"`
	TimedOut bool              `json:"timed_out,omitempty"`
}

func c25WaitIdle(p *Puller) bool {
	deadline := time.Now().Add(180 * time.Second)
	nap := 50 * time.Microsecond
	for {
		if p.inflightCount.Load() == 0 && len(p.queue) == 0 {
			p.catchupPathsMu.Lock()
			n := len(p.catchupPaths)
			p.catchupPathsMu.Unlock()
			if n == 0 {
				return true
			}
		}
		if time.Now().After(deadline) {
			return false
		}
		time.Sleep(nap)
		if nap < 2*time.Millisecond {
			nap += nap / 2
		}
	}
}

func c25Run(c c25Case) c25Result {
	base, err := os.MkdirTemp("", "c25-")
	if err != nil {
		panic(err)
	}
	defer os.RemoveAll(base)
	lb, err := storage.NewLocalBackend(base, zerolog.Nop())
	if err != nil {
		panic(err)
	}
	h := &c25Harness{base: base, files: map[string]*c25FileState{}}
	for i := range h.lns {
		ln, err := net.Listen("tcp", "127.0.0.1:0")
		if err != nil {
			panic(err)
		}
		h.lns[i] = ln
		h.wg.Add(1)
		go h.serve(i)
	}
	defer func() {
		for _, ln := range h.lns {
			ln.Close()
		}
		h.wg.Wait()
	}()

	var entries []*raft.FileEntry
	for _, f := range c.Files {
		body := c25Bytes(f.Seed, f.Size)
		sum := sha256.Sum256(body)
		origin := c25Origin
		if f.SelfOrigin {
			origin = c25Self
		}
		fs := &c25FileState{spec: f, body: body, sha: hex.EncodeToString(sum[:]),
			entry: &raft.FileEntry{Path: f.Path, SHA256: hex.EncodeToString(sum[:]), SizeBytes: int64(f.Size),
				Database: "db", Measurement: "cpu", OriginNodeID: origin, Tier: "hot", CreatedAt: time.Unix(1700000000, 0)}}
		h.files[f.Path] = fs
		h.order = append(h.order, f.Path)
		entries = append(entries, fs.entry)
		// state left behind by earlier attempts / an earlier process
		fp := h.finalPath(f.Path)
		_ = os.MkdirAll(filepath.Dir(fp), 0o755)
		wrong := c25Bytes(f.Seed^0xdeadbeef, f.Size+8)
		switch f.Pre {
		case "part-prefix":
			_ = os.WriteFile(fp+".part", body[:f.PreLen], 0o600)
		case "part-wrong":
			_ = os.WriteFile(fp+".part", wrong[:f.PreLen], 0o600)
		case "part-full-wrong":
			_ = os.WriteFile(fp+".part", wrong[:f.Size], 0o600)
		case "part-full-right":
			_ = os.WriteFile(fp+".part", body, 0o600)
		case "final":
			_ = os.WriteFile(fp, body, 0o600)
		}
	}

	fc, err := NewFetchClient(FetchClient{SelfNodeID: c25Self, ClusterName: c25Cluster, SharedSecret: c25Secret,
		DialTimeout: 5 * time.Second, ResponseHeaderTimeout: 30 * time.Second})
	if err != nil {
		panic(err)
	}
	p, err := New(Config{SelfNodeID: c25Self, Backend: &c25Backend{LocalBackend: lb, h: h}, Fetcher: fc, PeerResolver: h,
		Workers: c.Workers, QueueSize: 64, RetryMaxAttempts: c.Retry, RetryInitialBackoff: time.Millisecond,
		FetchTimeout: 120 * time.Second, Logger: zerolog.Nop()})
	if err != nil {
		panic(err)
	}
	ctx, cancel := context.WithCancel(context.Background())
	p.Start(ctx)
	defer func() { cancel(); p.Stop() }()

	res := c25Result{Present: map[string]string{}}
	scriptsDone := func() bool {
		for _, path := range h.order {
			fs := h.files[path]
			if fs.spec.SelfOrigin {
				continue
			}
			fs.mu.Lock()
			left := len(fs.spec.Script) - fs.calls
			fs.mu.Unlock()
			if left > 0 {
				if pr, ok, _ := h.finalState(fs); pr && ok {
					continue // already replicated: its remaining script can never be consumed
				}
				return false
			}
		}
		return true
	}
	anyTainted := func() bool {
		for _, fs := range h.files {
			fs.mu.Lock()
			t := fs.tainted
			fs.mu.Unlock()
			if t {
				return true
			}
		}
		return false
	}
	maxScript := 0
	for _, f := range c.Files {
		if len(f.Script) > maxScript {
			maxScript = len(f.Script)
		}
	}
	cleanRuns := 0
	for run := 0; run < maxScript+4 && cleanRuns < 2 && h.violation() == nil; run++ {
		clean := scriptsDone()
		before := p.Stats()
		enq := 0
		for _, e := range entries {
			if e.OriginNodeID != c25Self {
				enq++
			}
		}
		if run == 0 && c.CatchUp {
			sent := false
			p.RunCatchUp(ctx, func(cursor string, limit int) ([]*raft.FileEntry, string, error) {
				if sent {
					return nil, "", nil
				}
				sent = true
				return entries, "", nil
			})
		} else {
			for _, e := range entries {
				p.Enqueue(e)
			}
		}
		if !c25WaitIdle(p) {
			res.TimedOut = true
			h.fail("C25/harness-timeout", "puller did not become idle within 180 s in run %d (stats %v)", run, p.Stats())
			break
		}
		res.Runs++
		after := p.Stats()
		h.logf("run %d clean=%v stats=%v", run, clean, after)
		// S1 for every file, and count files that really are in place
		good := 0
		for _, path := range h.order {
			h.checkS1(path, fmt.Sprintf("after run %d", run))
			fs := h.files[path]
			if pr, ok, _ := h.finalState(fs); pr && ok && !fs.spec.SelfOrigin {
				good++
			}
		}
		tainted := anyTainted()
		claimed := (after["pulled"] - before["pulled"]) + (after["skipped_local"] - before["skipped_local"])
		if !tainted {
			// S2
			if claimed != int64(good) {
				h.fail("C25/counted-present-while-missing", "run %d: puller counted %d file(s) as present (pulled %d + skipped_local %d) but %d of %d hold the manifest bytes at their final path",
					run, claimed, after["pulled"]-before["pulled"], after["skipped_local"]-before["skipped_local"], good, enq)
			}
			// S3
			if c.CatchUp && p.FullyCaughtUp() && good != enq {
				st := p.CatchUpStatus()
				h.fail("C25/caught-up-while-missing", "run %d: FullyCaughtUp()=true (catchup_failed=%d catchup_inflight=%d completed_at!=0:%v) while only %d of %d manifest files are at their final path",
					run, st["catchup_failed"], st["catchup_inflight"], st["completed_at"] != 0, good, enq)
			}
		}
		if clean {
			cleanRuns++
		}
	}
	// L1 convergence after faults stopped (size-0 files cannot be served by the
	// real server: offset 0 >= size 0 is rejected as bad_offset)
	if h.violation() == nil && !anyTainted() && cleanRuns >= 2 {
		for _, path := range h.order {
			fs := h.files[path]
			if fs.spec.SelfOrigin || fs.spec.Size == 0 {
				continue
			}
			if pr, ok, part := h.finalState(fs); !pr || !ok {
				h.fail("C25/no-convergence", "%s still not in place after two fault-free runs (present=%v correct=%v part=%d size=%d)",
					path, pr, ok, part, fs.spec.Size)
			}
		}
	}
	for _, path := range h.order {
		fs := h.files[path]
		pr, ok, part := h.finalState(fs)
		res.Present[path] = fmt.Sprintf("present=%v correct=%v part=%d served=%d", pr, ok, part, fs.served)
		if fs.spec.SelfOrigin && fs.served > 0 {
			h.fail("C25/self-origin-fetched", "%s (origin = local node) was requested from a peer", path)
		}
	}
	res.Stats = p.Stats()
	res.CaughtUp = p.FullyCaughtUp()
	res.Tainted = anyTainted()
	res.Viol = h.violation()
	h.mu.Lock()
	res.History = append([]string(nil), h.history...)
	h.mu.Unlock()
	return res
}

// ---------------------------------------------------------------- generator

var c25Kinds = []string{
	"success", "success", "success", "success", "success",
	"truncate", "truncate", "truncate", "truncate",
	"corrupt", "corrupt", "corrupt",
	"corrupttrunc", "corrupttrunc", "corrupttrunc",
	"dialfail", "dialfail", "closeearly",
	"errack", "errack", "notonpeer", "notonpeer", "badoffset",
	"wrongsize", "wronghash", "wrongoffset", "garbage",
}

func c25GenOutcome(t *rapid.T, size int, label string) c25Outcome {
	o := c25Outcome{Kind: rapid.SampledFrom(c25Kinds).Draw(t, label+"kind")}
	if size == 0 && (o.Kind == "truncate" || o.Kind == "corrupt" || o.Kind == "corrupttrunc") {
		o.Kind = "closeearly" // no body to damage
	}
	if o.Kind == "dialfail" && !c25DeadAddrOK() {
		o.Kind = "closeearly"
	}
	hi := size
	if hi < 1 {
		hi = 1
	}
	switch o.Kind {
	case "truncate":
		o.K = rapid.IntRange(0, hi-1).Draw(t, label+"k")
	case "corrupt":
		o.J = rapid.IntRange(0, hi-1).Draw(t, label+"j")
	case "corrupttrunc":
		o.K = rapid.IntRange(0, hi-1).Draw(t, label+"k")
		o.J = rapid.IntRange(0, hi-1).Draw(t, label+"j")
	case "errack":
		o.Code = rapid.SampledFrom([]string{"auth", "backend", "raft", "invalid_path", "", "weird"}).Draw(t, label+"code")
	case "notonpeer":
		o.Code = rapid.SampledFrom([]string{"not_found", "manifest", "phase2"}).Draw(t, label+"code")
	case "wrongsize":
		o.Code = rapid.SampledFrom([]string{"plus", "minus", "zero"}).Draw(t, label+"code")
	}
	return o
}

func c25GenCase(t *rapid.T) c25Case {
	c := c25Case{
		Retry:   rapid.IntRange(1, 4).Draw(t, "retry"),
		Workers: rapid.IntRange(1, 3).Draw(t, "workers"),
		CatchUp: rapid.IntRange(0, 3).Draw(t, "catchup") > 0,
	}
	nf := rapid.SampledFrom([]int{1, 1, 1, 2, 3}).Draw(t, "nfiles")
	big := verifkit.Scale(1, 2)
	for i := 0; i < nf; i++ {
		f := c25File{Path: fmt.Sprintf("db%d/cpu/2026/04/11/14/f%d.parquet", i, i), Seed: rapid.Uint64().Draw(t, "seed")}
		switch rapid.IntRange(0, 19).Draw(t, "sizeclass") {
		case 0:
			f.Size = 0
		case 1, 2:
			f.Size = 1
		case 3, 4, 5, 6, 7:
			f.Size = rapid.IntRange(2, 64).Draw(t, "smallsize")
		case 8, 9, 10, 11, 12, 13, 14:
			f.Size = 4096
		default:
			if big > 0 && rapid.IntRange(0, 2).Draw(t, "bigfile") < big {
				f.Size = 256 * 1024
			} else {
				f.Size = 4096
			}
		}
		if verifkit.Excluded(kfC25StalePart) && f.Size == 0 {
			// a size-0 file meets the open finding after ANY failed attempt (the
			// empty .part is "full size"); the real server never serves size 0
			verifkit.CountExcluded(kfC25StalePart)
			f.Size = 1
		}
		f.SelfOrigin = nf > 1 && rapid.IntRange(0, 9).Draw(t, "self") == 0
		pre := rapid.SampledFrom([]string{"none", "none", "none", "none", "part-prefix", "part-prefix", "part-wrong",
			"part-full-wrong", "part-full-right", "final"}).Draw(t, "pre")
		if (pre == "part-prefix" || pre == "part-wrong") && f.Size < 1 {
			pre = "none"
		}
		f.Pre = pre
		if pre == "part-prefix" || pre == "part-wrong" {
			f.PreLen = rapid.IntRange(0, f.Size-1).Draw(t, "prelen")
		}
		na := rapid.IntRange(0, 7).Draw(t, "nattempts")
		for a := 0; a < na; a++ {
			var at c25Attempt
			if rapid.IntRange(0, 24).Draw(t, "nopeers") == 0 {
				if verifkit.Excluded(kfC25NoPeers) {
					verifkit.CountExcluded(kfC25NoPeers)
				} else {
					at.NoPeers = true
				}
			}
			if !at.NoPeers {
				np := rapid.SampledFrom([]int{1, 1, 1, 2}).Draw(t, "npeers")
				for k := 0; k < np; k++ {
					at.Peers = append(at.Peers, c25GenOutcome(t, f.Size, fmt.Sprintf("f%da%dp%d", i, a, k)))
				}
			}
			f.Script = append(f.Script, at)
		}
		c.Files = append(c.Files, f)
	}
	return c
}

func c25Damaging(k string) bool {
	return k == "truncate" || k == "corrupt" || k == "corrupttrunc"
}

// non-trivial: a corrupting/truncating outcome precedes a later attempt.
func c25NonTrivial(c c25Case) bool {
	for _, f := range c.Files {
		for _, at := range f.Script {
			for _, o := range at.Peers {
				if c25Damaging(o.Kind) { // a later attempt always follows (fault-free tail runs)
					return true
				}
			}
		}
	}
	return false
}

func c25Classes(c c25Case) {
	for _, f := range c.Files {
		verifkit.Class("pre:" + f.Pre)
		switch {
		case f.Size == 0:
			verifkit.Class("size:0")
		case f.Size == 1:
			verifkit.Class("size:1")
		case f.Size < 4096:
			verifkit.Class("size:2-64")
		case f.Size == 4096:
			verifkit.Class("size:4KiB")
		default:
			verifkit.Class("size:256KiB")
		}
		for _, at := range f.Script {
			if at.NoPeers {
				verifkit.Class("outcome:nopeers")
			}
			for _, o := range at.Peers {
				verifkit.Class("outcome:" + o.Kind)
			}
		}
	}
}

func c25Report(t interface {
	Fatalf(string, ...any)
}, c c25Case, r c25Result) {
	if r.Viol == nil {
		return
	}
	p := verifkit.WriteReplay("c25-history", map[string]any{"case": c, "result": r})
	t.Fatalf("VERIF-FAIL class=%s %s\ncase=%s\nreplay=%s", r.Viol.Class, r.Viol.Detail, c.Key(), p)
}

func TestVerifC25_FaultSequences(t *testing.T) {
	rapid.Check(t, func(t *rapid.T) {
		c := c25GenCase(t)
		verifkit.Eval()
		c25Classes(c)
		if c25NonTrivial(c) {
			verifkit.NonTrivial(c.Key())
			if verifkit.SampleCount() < 3 {
				verifkit.Sample(c)
			}
		}
		r := c25Run(c)
		if r.Tainted {
			verifkit.CountExcluded(kfC25StalePart)
			verifkit.Class("tainted-by-" + kfC25StalePart)
		}
		c25Report(t, c, r)
	})
}

// TestVerifC25_Enumerated walks every sequence of up to N outcomes from a fixed
// representative set for a single small file (deterministic fault enumeration).
func TestVerifC25_Enumerated(t *testing.T) {
	if sh := os.Getenv("VERIF_SHARD"); sh != "" && sh != "0" {
		t.Skip("the enumeration is identical in every shard; shard 0 runs it")
	}
	outs := []c25Outcome{
		{Kind: "success"}, {Kind: "truncate", K: 0}, {Kind: "truncate", K: 5}, {Kind: "corrupt", J: 2},
		{Kind: "corrupttrunc", K: 5, J: 1}, {Kind: "dialfail"}, {Kind: "errack", Code: "backend"},
		{Kind: "notonpeer", Code: "not_found"}, {Kind: "wrongsize", Code: "plus"}, {Kind: "wronghash"}, {Kind: "badoffset"},
	}
	if !c25DeadAddrOK() {
		outs[5] = c25Outcome{Kind: "closeearly"}
	}
	depth := verifkit.Scale(2, 3)
	var seqs [][]c25Outcome
	var rec func(prefix []c25Outcome, d int)
	rec = func(prefix []c25Outcome, d int) {
		seqs = append(seqs, append([]c25Outcome(nil), prefix...))
		if d == 0 {
			return
		}
		for _, o := range outs {
			rec(append(prefix, o), d-1)
		}
	}
	rec(nil, depth)
	pres := []string{"none", "part-prefix", "part-full-wrong"}
	retries := []int{2}
	if verifkit.Tier() == "thorough" {
		retries = []int{1, 2, 3}
	}
	n := 0
	for _, pre := range pres {
		for _, retry := range retries {
			for _, seq := range seqs {
				if pre != "none" && len(seq) > 2 {
					continue
				}
				f := c25File{Path: "db/cpu/2026/04/11/14/e.parquet", Size: 16, Seed: 7, Pre: pre}
				if pre == "part-prefix" {
					f.PreLen = 6
				}
				for _, o := range seq {
					f.Script = append(f.Script, c25Attempt{Peers: []c25Outcome{o}})
				}
				c := c25Case{Files: []c25File{f}, Retry: retry, Workers: 1, CatchUp: true}
				verifkit.Eval()
				n++
				if c25NonTrivial(c) {
					verifkit.NonTrivial(c.Key())
				}
				r := c25Run(c)
				if r.Tainted {
					verifkit.CountExcluded(kfC25StalePart)
				}
				c25Report(t, c, r)
			}
		}
	}
	verifkit.Note("enumerated_sequences", n)
	verifkit.Note("enumerated_depth", depth)
}

// ---------------------------------------------------------------- known findings

func TestVerifKF_C25_stale_part(t *testing.T) {
	// one 4 KiB file, 2 attempts: attempt 1 delivers every byte with byte 0
	// flipped (checksum mismatch), attempt 2 would be served honestly.
	c := c25Case{Retry: 2, Workers: 1, CatchUp: true, Files: []c25File{{
		Path: "db/cpu/2026/04/11/14/kf.parquet", Size: 4096, Seed: 1, Pre: "none",
		Script: []c25Attempt{{Peers: []c25Outcome{{Kind: "corrupt", J: 0}}}},
	}}}
	r := c25Run(c)
	rep := r.Viol != nil && (r.Viol.Class == "C25/counted-present-while-missing" || r.Viol.Class == "C25/caught-up-while-missing")
	what := "not reproduced"
	if r.Viol != nil {
		what = r.Viol.Class + ": " + r.Viol.Detail + fmt.Sprintf(" | stats pulled=%d skipped_local=%d checksum_mismatch=%d caught_up=%v final=%v",
			r.Stats["pulled"], r.Stats["skipped_local"], r.Stats["checksum_mismatch"], r.CaughtUp, r.Present)
	}
	t.Log(what)
	verifkit.KnownFinding(kfC25StalePart, rep, what)
}

func TestVerifKF_C25_no_peers(t *testing.T) {
	// one file, the resolver knows no healthy peer for every attempt of the
	// catch-up run.
	c := c25Case{Retry: 2, Workers: 1, CatchUp: true, Files: []c25File{{
		Path: "db/cpu/2026/04/11/14/kf2.parquet", Size: 64, Seed: 2, Pre: "none",
		Script: []c25Attempt{{NoPeers: true}, {NoPeers: true}},
	}}}
	r := c25Run(c)
	rep := r.Viol != nil && r.Viol.Class == "C25/caught-up-while-missing"
	what := "not reproduced"
	if r.Viol != nil {
		what = r.Viol.Class + ": " + r.Viol.Detail
	}
	t.Log(what)
	verifkit.KnownFinding(kfC25NoPeers, rep, what)
}
