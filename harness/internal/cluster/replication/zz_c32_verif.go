//go:build verif

package replication

import (
	"context"

	"github.com/rs/zerolog"
)

// VerifC32ApplyEntry runs the REAL Receiver.applyEntry for one replicated WAL
// payload against the given ingest handler (no local WAL). Test seam for
// /verif property C32; never part of a normal build.
func VerifC32ApplyEntry(h IngestHandler, seq uint64, payload []byte) error {
	r := NewReceiver(&ReceiverConfig{ReaderID: "verif-reader", IngestHandler: h, Logger: zerolog.Nop()})
	r.ctx = context.Background()
	return r.applyEntry(&ReplicateEntry{Sequence: seq, Payload: payload})
}
