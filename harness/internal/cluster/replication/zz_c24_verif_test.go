//go:build verif

package replication

// C24 - The replicated WAL stream is ordered, gap-free and authenticated.
//
// Real wal.Writer -> replication hook closure exactly as Coordinator.StartReplication
// installs it (text asserted against the current coordinator.go) -> real Sender
// -> loopback TCP -> frame-level proxy (tap, optionally adversarial) -> real
// Receiver. The acceptor repeats Coordinator.AcceptReplicationConnection
// (ReceiveMessage -> PrepareReader -> SyncAck -> ActivateReader).
//
// Honest wire oracle:
//   H1 the connection is never torn down (receiver totalErrors==0, still
//      connected and the sender still has the reader when the stream ends);
//   H2 the payloads applied by the receiver are exactly the entry frames the
//      sender put on the wire, in order;
//   H3 sequence numbers on the wire strictly increase, and {1..N} minus the
//      wire sequences is exactly the set of sequences the writer reported as
//      dropped (log line + counter);
//   H4 applied payloads are a sub-multiset of the appended payloads and
//      |applied| + dropped == appended; the hook ran once per append.
// Adversarial wire oracle: the applied payload list is a prefix of the honest
// entry stream emitted by the sender (nothing altered / duplicated / reordered
// / injected is ever applied); dropping the connection is allowed.

import (
	"bytes"
	"context"
	"crypto/sha256"
	"encoding/binary"
	"encoding/hex"
	"encoding/json"
	"fmt"
	"go/ast"
	"go/parser"
	"go/printer"
	"go/token"
	"io"
	"net"
	"os"
	"path/filepath"
	"sort"
	"strings"
	"sync"
	"sync/atomic"
	"testing"
	"time"

	"github.com/basekick-labs/arc/internal/cluster/protocol"
	"github.com/basekick-labs/arc/internal/cluster/security"
	"github.com/basekick-labs/arc/internal/verifkit"
	"github.com/basekick-labs/arc/internal/wal"
	"github.com/rs/zerolog"
	"pgregory.net/rapid"
)

const (
	kfC24SeqRace = "C24-seq-enqueue-race"
	kfC24WireGap = "C24-wire-gap-applied-until-checkpoint"

	c24Secret  = "c24-shared-secret"
	c24Cluster = "c24-cluster"
	c24Reader  = "reader-1"
	c24Writer  = "writer-1"

	// the closure Coordinator.StartReplication passes to SetReplicationHook,
	// whitespace removed (c24InstallHook below is the same code with
	// c.replicationSender -> sender and the package qualifier dropped)
	c24HookSrc = "func(entry*wal.ReplicationEntry){c.replicationSender.Replicate(&replication.ReplicateEntry{Sequence:entry.Sequence,TimestampUS:entry.TimestampUS,Payload:entry.Payload,})}"
)

func c24InstallHook(w *wal.Writer, sender *Sender) {
	w.SetReplicationHook(func(entry *wal.ReplicationEntry) {
		sender.Replicate(&ReplicateEntry{
			Sequence:    entry.Sequence,
			TimestampUS: entry.TimestampUS,
			Payload:     entry.Payload,
		})
	})
}

var c24AnchorOnce sync.Once

// c24AssertHookAnchor fails closed (exit 3 = inconclusive) when the hook closure
// in coordinator.go is no longer the text this harness replicates.
func c24AssertHookAnchor() {
	c24AnchorOnce.Do(func() {
		repo := os.Getenv("VERIF_REPO")
		if repo == "" {
			repo = "/repo"
		}
		src := filepath.Join(repo, "internal/cluster/coordinator.go")
		fset := token.NewFileSet()
		f, err := parser.ParseFile(fset, src, nil, 0)
		if err != nil {
			fmt.Fprintf(os.Stderr, "C24 anchor: cannot parse %s: %v\n", src, err)
			os.Exit(3)
		}
		var found []string
		ast.Inspect(f, func(n ast.Node) bool {
			call, ok := n.(*ast.CallExpr)
			if !ok || len(call.Args) != 1 {
				return true
			}
			sel, ok := call.Fun.(*ast.SelectorExpr)
			if !ok || sel.Sel.Name != "SetReplicationHook" {
				return true
			}
			var b bytes.Buffer
			_ = printer.Fprint(&b, fset, call.Args[0])
			found = append(found, strings.Join(strings.Fields(b.String()), ""))
			return true
		})
		if len(found) != 1 || found[0] != c24HookSrc {
			fmt.Fprintf(os.Stderr, "C24 anchor: SetReplicationHook closure in %s changed; harness replica is stale.\nwant %s\ngot  %v\n", src, c24HookSrc, found)
			os.Exit(3)
		}
	})
}

// ---------------------------------------------------------------- case model

type c24Action struct {
	Kind    string `json:"kind"`  // flip dup drop swap inject replaycp replayentry
	Frame   int    `json:"frame"` // data-frame index (entries and checkpoints as emitted by the sender)
	Off     int    `json:"off,omitempty"`
	Mask    int    `json:"mask,omitempty"`
	Variant string `json:"variant,omitempty"`
	Back    int    `json:"back,omitempty"`
}

type c24Case struct {
	Producers  int         `json:"producers"`
	Appends    int         `json:"appends_per_producer"`
	Seed       uint64      `json:"seed"`
	SizeClass  string      `json:"size_class"` // tiny small mixed large
	Interval   int         `json:"checkpoint_interval"`
	Buffer     int         `json:"sender_buffer"` // 0 = large enough never to drop
	MetaEvery  int         `json:"meta_every"`    // producer p uses AppendRawWithMeta when p%MetaEvery==0 (0 = never)
	Actions    []c24Action `json:"actions,omitempty"`
	ByteBudget int         `json:"byte_budget"`
}

func (c c24Case) Key() string { b, _ := json.Marshal(c); return string(b) }

type c24rng uint64

func (r *c24rng) next() uint64 {
	x := uint64(*r)
	x ^= x << 13
	x ^= x >> 7
	x ^= x << 17
	*r = c24rng(x)
	return x
}

func c24Size(r *c24rng, class string) int {
	v := r.next()
	pick := int(v % 100)
	w := int((v >> 8) % 1000003)
	switch class {
	case "tiny":
		return w % 17
	case "small":
		if pick < 5 {
			return 0
		}
		return 1 + w%256
	case "large":
		if pick < 60 {
			return 4097 + w%(65536-4097+1)
		}
		return w % 4097
	default: // mixed
		switch {
		case pick < 5:
			return 0
		case pick < 55:
			return 1 + w%64
		case pick < 90:
			return 65 + w%(4096-65+1)
		default:
			return 4097 + w%(65536-4097+1)
		}
	}
}

// c24Payloads builds the payloads producer p appends (deterministic).
func c24Payloads(c c24Case, p int, budget *int64) [][]byte {
	r := c24rng(c.Seed*0x9E3779B97F4A7C15 + uint64(p)*0x1000193 + 1)
	out := make([][]byte, c.Appends)
	for i := range out {
		n := c24Size(&r, c.SizeClass)
		if left := atomic.AddInt64(budget, -int64(n)); left < 0 {
			n = n % 33
		}
		b := make([]byte, n)
		for k := 0; k < n; k += 8 {
			var w [8]byte
			binary.LittleEndian.PutUint64(w[:], r.next())
			copy(b[k:], w[:])
		}
		if n >= 8 { // identity header: "P" producer index
			b[0] = 'P'
			b[1] = byte(p)
			binary.BigEndian.PutUint32(b[2:6], uint32(i))
			b[6], b[7] = 0xC2, 0x4A
		}
		out[i] = b
	}
	return out
}

func c24Ident(payload []byte) string {
	// strip a WAL envelope if present
	if len(payload) > 3 && payload[0] == wal.WALEnvelopeMarker {
		l := int(binary.BigEndian.Uint16(payload[1:3]))
		if len(payload) >= 3+l {
			payload = payload[3+l:]
		}
	}
	if len(payload) >= 8 && payload[0] == 'P' && payload[6] == 0xC2 && payload[7] == 0x4A {
		return fmt.Sprintf("p%d#%d", payload[1], binary.BigEndian.Uint32(payload[2:6]))
	}
	if len(payload) >= 4 && string(payload[:4]) == "FILL" {
		return "fill"
	}
	return fmt.Sprintf("anon(%d)", len(payload))
}

// ---------------------------------------------------------------- log capture

type c24LogLine struct {
	Level string `json:"level"`
	Msg   string `json:"message"`
	Seq   uint64 `json:"sequence"`
	Err   string `json:"error"`
}

type c24LogSink struct {
	mu    sync.Mutex
	lines []c24LogLine
}

func (s *c24LogSink) Write(p []byte) (int, error) {
	var l c24LogLine
	if json.Unmarshal(p, &l) == nil {
		s.mu.Lock()
		s.lines = append(s.lines, l)
		s.mu.Unlock()
	}
	return len(p), nil
}

func (s *c24LogSink) snapshot() []c24LogLine {
	s.mu.Lock()
	defer s.mu.Unlock()
	return append([]c24LogLine(nil), s.lines...)
}

// ---------------------------------------------------------------- proxy / tap

type c24Frame struct {
	Type    byte
	Body    []byte // type byte + JSON payload (what follows the 4-byte length)
	Seq     uint64 // entry sequence or checkpoint last_seq
	Payload []byte // decoded entry payload (entries only)
}

func (f *c24Frame) wire() []byte {
	out := make([]byte, 4+len(f.Body))
	binary.BigEndian.PutUint32(out, uint32(len(f.Body)))
	copy(out[4:], f.Body)
	return out
}

type c24Proxy struct {
	ln       net.Listener
	upAddr   string
	actions  map[int][]c24Action
	mu       sync.Mutex
	frames   []*c24Frame // honest data frames as emitted by the sender
	fired    []string
	gapFired bool // an action that removes/delays an ENTRY frame fired (finding C24-wire-gap shape)
	// gapVisible: the removed/delayed entry leaves a trace the reader can see (a
	// swapped pair trips the sequence check; a dropped entry changes the
	// cumulative payload hash unless its payload is empty)
	gapVisible bool
	upDone     atomic.Bool
	finish     atomic.Bool
	up, down   net.Conn
	wg         sync.WaitGroup
	connMu     sync.Mutex
}

func c24ReadFrame(r io.Reader) (*c24Frame, error) {
	var hdr [4]byte
	if _, err := io.ReadFull(r, hdr[:]); err != nil {
		return nil, err
	}
	n := binary.BigEndian.Uint32(hdr[:])
	if n < 1 || n > MaxMessageSize {
		return nil, fmt.Errorf("bad frame length %d", n)
	}
	body := make([]byte, n)
	if _, err := io.ReadFull(r, body); err != nil {
		return nil, err
	}
	return &c24Frame{Type: body[0], Body: body}, nil
}

func (p *c24Proxy) count() int { p.mu.Lock(); defer p.mu.Unlock(); return len(p.frames) }

func (p *c24Proxy) snapshot() ([]*c24Frame, []string, bool, bool) {
	p.mu.Lock()
	defer p.mu.Unlock()
	return append([]*c24Frame(nil), p.frames...), append([]string(nil), p.fired...), p.gapFired, p.gapVisible
}

func (p *c24Proxy) run() {
	defer p.wg.Done()
	down, err := p.ln.Accept()
	if err != nil {
		return
	}
	up, err := net.DialTimeout("tcp", p.upAddr, 10*time.Second)
	if err != nil {
		down.Close()
		return
	}
	p.connMu.Lock()
	p.up, p.down = up, down
	p.connMu.Unlock()
	// reader -> writer: raw bytes (handshake request, acks)
	p.wg.Add(1)
	go func() {
		defer p.wg.Done()
		_, _ = io.Copy(up, down)
		// the reader went away: let the writer see it
		up.Close()
	}()
	defer func() {
		p.upDone.Store(true)
		if tc, ok := down.(*net.TCPConn); ok {
			_ = tc.CloseWrite()
		}
	}()
	// writer -> reader: frame 0 is the handshake ack (cluster protocol framing,
	// same layout) and passes untouched
	first, err := c24ReadFrame(up)
	if err != nil {
		return
	}
	if _, err := down.Write(first.wire()); err != nil {
		return
	}
	var held []*c24Frame // frames delayed by swap actions, flushed (in order) after the next frame that is written
	// missing = genuine entry frames the reader has not been sent (yet): dropped
	// for good, or held. Whenever a LATER genuine entry goes out while this is
	// non-empty the reader is shown a sequence gap the writer never reported -
	// the shape of the open finding C24-wire-gap-applied-until-checkpoint.
	type missingEntry struct {
		f    *c24Frame
		held bool
	}
	var missing []missingEntry
	aboutToWriteEntry := func(f *c24Frame) {
		k := 0
		for _, m := range missing {
			if m.f != f {
				missing[k] = m
				k++
			}
		}
		missing = missing[:k]
		if len(missing) == 0 {
			return
		}
		p.mu.Lock()
		p.gapFired = true
		for _, m := range missing {
			// a held entry is sent later and trips the sequence check; a dropped one
			// changes the cumulative hash unless its payload is empty
			if m.held || len(m.f.Payload) > 0 {
				p.gapVisible = true
			}
		}
		p.mu.Unlock()
	}
	write := func(b []byte) bool {
		_ = down.SetWriteDeadline(time.Now().Add(120 * time.Second))
		_, err := down.Write(b)
		return err == nil
	}
	otherKey, _ := security.DeriveReplicationSessionKey(c24Secret, "nonce-of-another-session")
	for idx := 0; ; idx++ {
		fr, err := c24ReadFrame(up)
		if err != nil {
			break
		}
		switch fr.Type {
		case MsgReplicateEntry:
			if e, err := ParseEntry(fr.Body[1:]); err == nil {
				fr.Seq, fr.Payload = e.Sequence, e.Payload
			}
		case MsgReplicateCheckpoint:
			if cp, err := ParseCheckpoint(fr.Body[1:]); err == nil {
				fr.Seq = cp.LastSequence
			}
		}
		p.mu.Lock()
		p.frames = append(p.frames, fr)
		hist := p.frames
		p.mu.Unlock()
		out := [][]byte{fr.wire()}
		dropped := false
		for _, a := range p.actions[idx] {
			fire := func(note string) {
				p.mu.Lock()
				p.fired = append(p.fired, fmt.Sprintf("%s@%d(%s)", a.Kind, idx, note))
				p.mu.Unlock()
			}
			lastEntry := func() *c24Frame {
				for k := len(hist) - 1; k >= 0; k-- {
					if hist[k].Type == MsgReplicateEntry {
						return hist[k]
					}
				}
				return nil
			}
			switch a.Kind {
			case "flip":
				b := fr.wire()
				pos := 4 + a.Off%len(fr.Body)
				m := byte(a.Mask)
				if m == 0 {
					m = 1
				}
				b[pos] ^= m
				out = [][]byte{b}
				fire(fmt.Sprintf("type=%#x pos=%d", fr.Type, pos-4))
			case "dup":
				out = append(out, fr.wire())
				fire(fmt.Sprintf("type=%#x", fr.Type))
			case "drop":
				if !dropped && fr.Type == MsgReplicateEntry {
					missing = append(missing, missingEntry{f: fr})
				}
				dropped = true
				fire(fmt.Sprintf("type=%#x seq=%d payload=%dB", fr.Type, fr.Seq, len(fr.Payload)))
			case "swap":
				if !dropped {
					held = append(held, fr)
					if fr.Type == MsgReplicateEntry {
						missing = append(missing, missingEntry{f: fr, held: true})
					}
				}
				dropped = true
				fire(fmt.Sprintf("type=%#x seq=%d", fr.Type, fr.Seq))
			case "replaycp":
				for k := len(hist) - 2; k >= 0; k-- {
					if hist[k].Type == MsgReplicateCheckpoint {
						out = append([][]byte{hist[k].wire()}, out...)
						fire(fmt.Sprintf("cp last_seq=%d", hist[k].Seq))
						break
					}
				}
			case "replayentry":
				k := idx - 1 - a.Back
				for ; k >= 0; k-- {
					if hist[k].Type == MsgReplicateEntry {
						out = append([][]byte{hist[k].wire()}, out...)
						fire(fmt.Sprintf("entry seq=%d", hist[k].Seq))
						break
					}
				}
			case "inject":
				base := lastEntry()
				if base == nil {
					break
				}
				orig, err := ParseEntry(base.Body[1:])
				if err != nil {
					break
				}
				forged := *orig
				switch a.Variant {
				case "othersession": // a frame authenticated for ANOTHER session of the same cluster
					forged.Sequence = orig.Sequence + 1
					forged.Payload = []byte("INJECTED-FROM-OTHER-SESSION")
					forged.Tag = hex.EncodeToString(security.ComputeReplicationEntryTag(otherKey, forged.Sequence, forged.Payload))
				case "payloadswap": // genuine sequence + tag, different payload
					forged.Sequence = orig.Sequence + 1
					forged.Payload = append([]byte("ALTERED-"), orig.Payload...)
				case "seqbump": // genuine payload + tag replayed under a fresh sequence
					forged.Sequence = orig.Sequence + 1
				case "notag":
					forged.Sequence = orig.Sequence + 1
					forged.Payload = []byte("INJECTED-WITHOUT-TAG")
					forged.Tag = ""
				default: // forgedcp: checkpoint signed with the wrong secret
					var buf bytes.Buffer
					sum := sha256.Sum256([]byte("whatever"))
					_ = WriteCheckpoint(&buf, &ReplicateCheckpoint{
						CumulativePayloadHashHex: hex.EncodeToString(sum[:]), LastSequence: orig.Sequence, Nonce: "n", SenderNodeID: c24Writer,
						ClusterName: c24Cluster, Timestamp: time.Now().Unix(),
						HMAC: security.ComputeReplicationCheckpointHMAC("not-the-secret", "n", c24Writer, c24Cluster, sum, orig.Sequence, time.Now().Unix())})
					if fr.Type == MsgReplicateEntry { // inject AFTER the current entry so last_seq matches
						out = append(out, buf.Bytes())
					} else {
						out = append([][]byte{buf.Bytes()}, out...)
					}
					fire("forgedcp")
					continue
				}
				var buf bytes.Buffer
				_ = WriteEntry(&buf, &forged)
				if fr.Type == MsgReplicateEntry && base == fr {
					out = append(out, buf.Bytes()) // after the genuine frame it was derived from
				} else {
					out = append([][]byte{buf.Bytes()}, out...)
				}
				fire(a.Variant)
			}
		}
		ok := true
		if !dropped {
			if fr.Type == MsgReplicateEntry {
				aboutToWriteEntry(fr)
			}
			for _, b := range out {
				if ok = write(b); !ok {
					break
				}
			}
			for ok && len(held) > 0 {
				h := held[0]
				held = held[1:]
				if h.Type == MsgReplicateEntry {
					aboutToWriteEntry(h)
				}
				ok = write(h.wire())
			}
		}
		if !ok {
			break
		}
	}
	for _, h := range held {
		if h.Type == MsgReplicateEntry {
			aboutToWriteEntry(h)
		}
		if !write(h.wire()) {
			break
		}
	}
}

func (p *c24Proxy) stop() {
	p.ln.Close()
	p.connMu.Lock()
	if p.up != nil {
		p.up.Close()
	}
	if p.down != nil {
		p.down.Close()
	}
	p.connMu.Unlock()
	p.wg.Wait()
}

// endOfStream makes the writer->reader pump stop reading and half-close toward the reader.
func (p *c24Proxy) endOfStream() {
	p.connMu.Lock()
	if p.up != nil {
		_ = p.up.SetReadDeadline(time.Now())
	}
	p.connMu.Unlock()
}

// ---------------------------------------------------------------- run one case

type c24Result struct {
	Class       string   `json:"class,omitempty"`
	Detail      string   `json:"detail,omitempty"`
	Appended    int      `json:"appended"`
	WireEntries int      `json:"wire_entries"`
	WireCPs     int      `json:"wire_checkpoints"`
	Applied     int      `json:"applied"`
	Dropped     int64    `json:"writer_dropped"`
	Inversions  int      `json:"wire_sequence_inversions"`
	Overlapped  bool     `json:"producers_overlapped"`
	Fired       []string `json:"actions_fired,omitempty"`
	RecvErrors  int64    `json:"receiver_total_errors"`
	RecvLog     []string `json:"receiver_log,omitempty"`
	SenderLog   []string `json:"sender_log,omitempty"`
	Interleave  []string `json:"wire_order,omitempty"` // seq:producer#index, as seen on the wire
	ExcludedBy  string   `json:"excluded_by,omitempty"`
}

func c24Wait(what string, bound time.Duration, cond func() bool) bool {
	deadline := time.Now().Add(bound)
	nap := 20 * time.Microsecond
	for !cond() {
		if time.Now().After(deadline) {
			return false
		}
		time.Sleep(nap)
		if nap < 2*time.Millisecond {
			nap += nap / 2
		}
	}
	return true
}

const c24Bound = 180 * time.Second

func c24Run(c c24Case) (res c24Result) {
	c24AssertHookAnchor()
	fail := func(class, format string, a ...any) {
		if res.Class == "" {
			res.Class, res.Detail = class, fmt.Sprintf(format, a...)
		}
	}
	dir, err := os.MkdirTemp("", "c24-")
	if err != nil {
		panic(err)
	}
	defer os.RemoveAll(dir)
	ctx, cancel := context.WithCancel(context.Background())
	defer cancel()

	total := c.Producers*c.Appends + c.Interval + 2
	w, err := wal.NewWriter(&wal.WriterConfig{WALDir: dir, SyncMode: wal.SyncModeAsync, BufferSize: total + 64, Logger: zerolog.Nop()})
	if err != nil {
		panic(err)
	}
	defer w.Close()

	sink := &c24LogSink{}
	rsink := &c24LogSink{}
	buf := c.Buffer
	if buf <= 0 {
		buf = total + 64
	}
	sender := NewSender(&SenderConfig{BufferSize: buf, WriteTimeout: 150 * time.Second,
		Logger: zerolog.New(sink).Level(zerolog.WarnLevel), SharedSecret: c24Secret, ClusterName: c24Cluster,
		LocalNodeID: c24Writer, CheckpointInterval: c.Interval})
	if err := sender.Start(ctx); err != nil {
		panic(err)
	}
	defer sender.Stop()
	c24InstallHook(w, sender)

	// acceptor = Coordinator.handleReplicateSync + AcceptReplicationConnection
	aln, err := net.Listen("tcp", "127.0.0.1:0")
	if err != nil {
		panic(err)
	}
	defer aln.Close()
	var rcMu sync.Mutex
	var rc *ReaderConnection
	var awg sync.WaitGroup
	awg.Add(1)
	go func() {
		defer awg.Done()
		for {
			conn, err := aln.Accept()
			if err != nil {
				return
			}
			msg, err := protocol.ReceiveMessage(conn, 30*time.Second)
			if err != nil || msg.Type != protocol.MsgReplicateSync {
				conn.Close()
				continue
			}
			req := msg.Payload.(*protocol.ReplicateSync)
			if err := security.ValidateReplicateSyncHMAC(c24Secret, req.Nonce, req.ReaderID, req.ClusterName,
				req.LastKnownSequence, req.Timestamp, req.HMAC, security.HMACTimestampTolerance); err != nil || req.ClusterName != c24Cluster {
				_ = protocol.SendMessage(conn, &protocol.Message{Type: protocol.MsgReplicateSyncAck,
					Payload: &protocol.ReplicateSyncAck{Error: "authentication failed"}}, 5*time.Second)
				conn.Close()
				continue
			}
			reader, err := sender.PrepareReader(conn, req.ReaderID, req.Nonce, req.LastKnownSequence)
			if err != nil {
				continue
			}
			cur, can := sender.CurrentSequenceAndCanResume(req.LastKnownSequence)
			if err := protocol.SendMessage(conn, &protocol.Message{Type: protocol.MsgReplicateSyncAck,
				Payload: &protocol.ReplicateSyncAck{CurrentSequence: cur, CanResume: can}}, 5*time.Second); err != nil {
				reader.Discard()
				continue
			}
			rcMu.Lock()
			if rc == nil {
				rc = reader
			}
			rcMu.Unlock()
			sender.ActivateReader(reader)
		}
	}()
	defer awg.Wait()
	defer aln.Close()

	pln, err := net.Listen("tcp", "127.0.0.1:0")
	if err != nil {
		panic(err)
	}
	px := &c24Proxy{ln: pln, upAddr: aln.Addr().String(), actions: map[int][]c24Action{}}
	for _, a := range c.Actions {
		px.actions[a.Frame] = append(px.actions[a.Frame], a)
	}
	px.wg.Add(1)
	go px.run()
	defer px.stop()

	var apMu sync.Mutex
	var applied [][]byte
	recv := NewReceiver(&ReceiverConfig{ReaderID: c24Reader, WriterAddr: pln.Addr().String(),
		IngestHandler: IngestHandlerFunc(func(_ context.Context, payload []byte) error {
			cp := append([]byte(nil), payload...)
			apMu.Lock()
			applied = append(applied, cp)
			apMu.Unlock()
			return nil
		}),
		ReconnectInterval: time.Hour, AckInterval: 5 * time.Millisecond,
		Logger: zerolog.New(rsink).Level(zerolog.WarnLevel), SharedSecret: c24Secret, ClusterName: c24Cluster})
	if err := recv.Start(ctx); err != nil {
		panic(err)
	}
	defer recv.Stop()

	if !c24Wait("connect", c24Bound, func() bool { return recv.IsConnected() && sender.ReaderCount() == 1 }) {
		fail("C24/harness-timeout", "receiver did not connect (receiver log %v)", rsink.snapshot())
		return
	}
	rcMu.Lock()
	reader := rc
	rcMu.Unlock()

	// producers
	budget := int64(c.ByteBudget)
	plans := make([][][]byte, c.Producers)
	for p := range plans {
		plans[p] = c24Payloads(c, p, &budget)
	}
	queued := map[[32]byte]int{}
	expect := func(p int, raw []byte) []byte {
		if c.MetaEvery > 0 && p%c.MetaEvery == 0 {
			db := fmt.Sprintf("db%d", p)
			out := make([]byte, 0, 3+len(db)+len(raw))
			out = append(out, wal.WALEnvelopeMarker, 0, byte(len(db)))
			out = append(out, db...)
			return append(out, raw...)
		}
		return raw
	}
	for p, plan := range plans {
		for _, raw := range plan {
			queued[sha256.Sum256(expect(p, raw))]++
		}
	}
	start := make(chan struct{})
	var pwg sync.WaitGroup
	for p := range plans {
		pwg.Add(1)
		go func(p int) {
			defer pwg.Done()
			<-start
			meta := c.MetaEvery > 0 && p%c.MetaEvery == 0
			db := fmt.Sprintf("db%d", p)
			for _, raw := range plans[p] {
				if meta {
					_ = w.AppendRawWithMeta(db, raw)
				} else {
					_ = w.AppendRaw(raw)
				}
			}
		}(p)
	}
	close(start)
	pwg.Wait()
	res.Appended = c.Producers * c.Appends

	senderIdle := func() bool {
		if sender.ReaderCount() == 0 {
			return len(sender.entryChan) == 0
		}
		return len(sender.entryChan) == 0 &&
			sender.totalEntriesSent.Load()+sender.totalEntriesDropped.Load() == sender.totalEntriesReceived.Load()
	}
	if !c24Wait("sender idle", c24Bound, senderIdle) {
		fail("C24/harness-timeout", "sender did not drain its queue (stats %v)", sender.Stats())
		return
	}
	// fillers (single goroutine, queue empty before each so none can be dropped)
	// until a checkpoint covers everything that was streamed
	if sender.ReaderCount() == 1 {
		need := (c.Interval - int(reader.entriesSent.Load())%c.Interval) % c.Interval
		for f := 0; f < need; f++ {
			fill := []byte(fmt.Sprintf("FILL%04d", f))
			queued[sha256.Sum256(fill)]++
			res.Appended++
			_ = w.AppendRaw(fill)
			if !c24Wait("filler", c24Bound, senderIdle) {
				fail("C24/harness-timeout", "sender did not drain a filler entry (stats %v)", sender.Stats())
				return
			}
		}
	}
	// every frame the sender wrote has reached the proxy
	sent := int(reader.entriesSent.Load())
	target := sent + sent/c.Interval
	if !c24Wait("tap", c24Bound, func() bool { return px.count() >= target || px.upDone.Load() }) {
		fail("C24/harness-timeout", "proxy saw %d of %d frames", px.count(), target)
		return
	}
	connectedBefore := recv.IsConnected()
	readersBefore := sender.ReaderCount()
	senderErrs := reader.errors.Load()
	// end of stream: the reader drains everything forwarded so far, then sees EOF
	px.endOfStream()
	if !c24Wait("reader drained", c24Bound, func() bool { return !recv.IsConnected() }) {
		fail("C24/harness-timeout", "receiver did not finish the stream")
		return
	}
	// receiveLoop has returned; connectionLoop flips connected=false after it.
	frames, fired, gapFired, gapVisible := px.snapshot()
	apMu.Lock()
	got := append([][]byte(nil), applied...)
	apMu.Unlock()
	res.Fired = fired
	res.Applied = len(got)
	res.Dropped = sender.totalEntriesDropped.Load()
	res.RecvErrors = recv.totalErrors.Load()
	for _, l := range rsink.snapshot() {
		res.RecvLog = append(res.RecvLog, fmt.Sprintf("%s: %s seq=%d %s", l.Level, l.Msg, l.Seq, l.Err))
	}
	droppedSeqs := map[uint64]bool{}
	for _, l := range sink.snapshot() {
		if l.Msg == "Replication buffer full, entry dropped" {
			droppedSeqs[l.Seq] = true
		} else if len(res.SenderLog) < 20 {
			res.SenderLog = append(res.SenderLog, fmt.Sprintf("%s: %s seq=%d %s", l.Level, l.Msg, l.Seq, l.Err))
		}
	}
	var honest []*c24Frame
	var lastSeq uint64
	firstInv := ""
	lastProd := ""
	seenProd := map[string]bool{}
	for _, f := range frames {
		switch f.Type {
		case MsgReplicateEntry:
			honest = append(honest, f)
			id := c24Ident(f.Payload)
			if len(res.Interleave) < 4000 {
				res.Interleave = append(res.Interleave, fmt.Sprintf("%d:%s", f.Seq, id))
			}
			if f.Seq <= lastSeq {
				res.Inversions++
				if firstInv == "" {
					firstInv = fmt.Sprintf("seq %d (%s) was written to the wire after seq %d", f.Seq, id, lastSeq)
				}
			} else {
				lastSeq = f.Seq
			}
			if i := strings.IndexByte(id, '#'); i > 0 {
				prod := id[:i]
				if prod != lastProd && seenProd[prod] {
					res.Overlapped = true
				}
				seenProd[prod] = true
				lastProd = prod
			}
		case MsgReplicateCheckpoint:
			res.WireCPs++
		}
	}
	res.WireEntries = len(honest)

	// ---- oracle
	appliedIsPrefix := func() (bool, string) {
		if len(got) > len(honest) {
			return false, fmt.Sprintf("%d payloads applied but only %d entries were sent", len(got), len(honest))
		}
		for i, pl := range got {
			if !bytes.Equal(pl, honest[i].Payload) {
				return false, fmt.Sprintf("applied[%d] = %s (%d bytes, %.24q) but the sender's entry #%d is seq %d %s",
					i, c24Ident(pl), len(pl), pl, i, honest[i].Seq, c24Ident(honest[i].Payload))
			}
		}
		return true, ""
	}
	if len(c.Actions) > 0 {
		// adversarial wire
		ok, why := appliedIsPrefix()
		if !ok && gapFired && verifkit.Excluded(kfC24WireGap) {
			// open finding: entries after a frame lost/delayed on the wire are applied
			// until the next checkpoint. Keep what still must hold: only genuine
			// entries, in sender order, each at most once, and the gap is detected.
			res.ExcludedBy = kfC24WireGap
			k := 0
			for _, pl := range got {
				for k < len(honest) && !bytes.Equal(pl, honest[k].Payload) {
					k++
				}
				if k == len(honest) {
					fail("C24/non-genuine-entry-applied", "applied payload %s (%d bytes) is not a later entry of the sender's stream (actions fired %v)", c24Ident(pl), len(pl), fired)
					break
				}
				k++
			}
			if res.RecvErrors == 0 && gapVisible {
				fail("C24/wire-gap-never-detected", "an entry frame was removed from the wire and the reader verified the following checkpoint (actions fired %v)", fired)
			}
		} else if !ok {
			class := "C24/tampered-stream-applied"
			if gapFired {
				class = "C24/wire-gap-applied"
			}
			fail(class, "%s; actions fired %v; receiver log %v", why, fired, res.RecvLog)
		}
		return
	}
	// honest wire
	if res.Inversions > 0 && res.RecvErrors == 0 {
		fail("C24/out-of-order-applied", "the wire carried %s and the receiver accepted it", firstInv)
		return
	}
	if res.Inversions > 0 {
		if verifkit.Excluded(kfC24SeqRace) {
			res.ExcludedBy = kfC24SeqRace
			if ok, why := appliedIsPrefix(); !ok {
				fail("C24/applied-not-prefix-of-wire", "%s", why)
			}
			return
		}
		fail("C24/healthy-connection-dropped-by-writer-concurrency",
			"the sender emitted sequence numbers out of order: %s (%d inversions in %d entries, %d producers); receiver errors=%d log=%v",
			firstInv, res.Inversions, len(honest), c.Producers, res.RecvErrors, res.RecvLog)
		return
	}
	if !connectedBefore || readersBefore != 1 || senderErrs != 0 || res.RecvErrors != 0 {
		fail("C24/healthy-connection-dropped", "connected=%v sender_readers=%d sender_reader_errors=%d receiver_total_errors=%d receiver log %v sender log %v",
			connectedBefore, readersBefore, senderErrs, res.RecvErrors, res.RecvLog, res.SenderLog)
		return
	}
	if len(got) != len(honest) {
		fail("C24/applied-differs-from-wire", "%d entries on the wire, %d applied", len(honest), len(got))
		return
	}
	if ok, why := appliedIsPrefix(); !ok {
		fail("C24/applied-differs-from-wire", "%s", why)
		return
	}
	// H3
	onWire := map[uint64]bool{}
	for _, f := range honest {
		onWire[f.Seq] = true
	}
	n := uint64(res.Appended)
	if got := sender.CurrentSequence(); got != n || w.CurrentSequence() != n {
		fail("C24/hook-count", "%d appends but sender sequence=%d wal sequence=%d", n, got, w.CurrentSequence())
		return
	}
	var missing, unreported []uint64
	for s := uint64(1); s <= n; s++ {
		if !onWire[s] {
			missing = append(missing, s)
			if !droppedSeqs[s] {
				unreported = append(unreported, s)
			}
		}
	}
	if len(unreported) > 0 || int64(len(missing)) != res.Dropped || len(droppedSeqs) != len(missing) {
		sort.Slice(unreported, func(i, j int) bool { return unreported[i] < unreported[j] })
		if len(unreported) > 10 {
			unreported = unreported[:10]
		}
		fail("C24/unreported-gap", "%d sequences missing from the wire, writer reported %d drops (counter %d); not reported: %v",
			len(missing), len(droppedSeqs), res.Dropped, unreported)
		return
	}
	// H4
	for _, pl := range got {
		k := sha256.Sum256(pl)
		queued[k]--
		if queued[k] < 0 {
			fail("C24/applied-not-appended", "payload %s (%d bytes) applied more often than it was appended", c24Ident(pl), len(pl))
			return
		}
	}
	if int64(len(got))+res.Dropped != int64(res.Appended) {
		fail("C24/lost-entry", "appended %d, applied %d, writer-reported drops %d", res.Appended, len(got), res.Dropped)
	}
	return
}

// ---------------------------------------------------------------- generator

func c24GenCase(t *rapid.T, adversarial bool) c24Case {
	c := c24Case{
		Producers:  rapid.IntRange(1, 16).Draw(t, "producers"),
		Appends:    rapid.IntRange(5, 200).Draw(t, "appends"),
		Seed:       rapid.Uint64().Draw(t, "seed"),
		SizeClass:  rapid.SampledFrom([]string{"tiny", "tiny", "small", "small", "mixed", "mixed", "large"}).Draw(t, "sizes"),
		Interval:   rapid.SampledFrom([]int{1, 2, 3, 4, 7, 8, 16, 31, 64, rapid.IntRange(1, 64).Draw(t, "ivany")}).Draw(t, "interval"),
		MetaEvery:  rapid.IntRange(0, 3).Draw(t, "meta"),
		ByteBudget: verifkit.Scale(1<<20, 6<<20),
	}
	cap := verifkit.Scale(1200, 3200)
	if c.Producers*c.Appends > cap {
		c.Appends = cap / c.Producers
		if c.Appends < 5 {
			c.Appends = 5
		}
	}
	if rapid.IntRange(0, 3).Draw(t, "smallbuf") == 0 {
		c.Buffer = rapid.IntRange(1, 16).Draw(t, "buffer")
	}
	if adversarial {
		// keep the stream short enough that frame indices are hit
		if c.Producers > 4 {
			c.Producers = 1 + c.Producers%4
		}
		if c.Appends > 40 {
			c.Appends = 5 + c.Appends%36
		}
		c.Buffer = 0
		frames := c.Producers*c.Appends + c.Producers*c.Appends/c.Interval
		na := rapid.SampledFrom([]int{1, 1, 1, 2, 3}).Draw(t, "nactions")
		for i := 0; i < na; i++ {
			a := c24Action{
				Kind:  rapid.SampledFrom([]string{"flip", "flip", "flip", "dup", "drop", "drop", "swap", "swap", "inject", "inject", "replaycp", "replayentry"}).Draw(t, "akind"),
				Frame: rapid.IntRange(0, frames-1).Draw(t, "aframe"),
			}
			switch a.Kind {
			case "flip":
				a.Off = rapid.IntRange(0, 1<<16).Draw(t, "aoff")
				if rapid.IntRange(0, 5).Draw(t, "typebyte") == 0 {
					a.Off = 0
				}
				a.Mask = 1 << rapid.IntRange(0, 7).Draw(t, "abit")
			case "inject":
				a.Variant = rapid.SampledFrom([]string{"othersession", "payloadswap", "seqbump", "notag", "forgedcp"}).Draw(t, "avariant")
			case "replayentry":
				a.Back = rapid.IntRange(0, 5).Draw(t, "aback")
			}
			if verifkit.Excluded(kfC24WireGap) && (a.Kind == "drop" || a.Kind == "swap") {
				verifkit.CountExcluded(kfC24WireGap) // judged by the reduced oracle in c24Run
			}
			c.Actions = append(c.Actions, a)
		}
	}
	return c
}

func c24Check(t interface{ Fatalf(string, ...any) }, c c24Case, r c24Result) {
	if r.Class == "" {
		return
	}
	p := verifkit.WriteReplay("c24-history", map[string]any{"case": c, "result": r})
	r.Interleave = nil
	b, _ := json.Marshal(r)
	t.Fatalf("VERIF-FAIL class=%s %s\ncase=%s\nobserved=%s\nreplay=%s", r.Class, r.Detail, c.Key(), b, p)
}

func c24Record(c c24Case, r c24Result) {
	verifkit.Eval()
	verifkit.Class(fmt.Sprintf("producers:%s", map[bool]string{true: "1", false: ">=2"}[c.Producers == 1]))
	verifkit.Class("sizes:" + c.SizeClass)
	if c.Buffer > 0 {
		verifkit.Class("buffer:small")
		if r.Dropped > 0 {
			verifkit.Class("buffer:small-with-drops")
		}
	}
	for _, f := range r.Fired {
		verifkit.Class("fired:" + f[:strings.IndexByte(f, '@')])
	}
	if r.Overlapped {
		verifkit.Class("producers-overlapped")
	}
	if r.ExcludedBy != "" {
		verifkit.CountExcluded(r.ExcludedBy)
	}
	if r.Overlapped || len(r.Fired) > 0 {
		h := sha256.Sum256([]byte(strings.Join(r.Interleave, ",")))
		verifkit.NonTrivial(c.Key() + hex.EncodeToString(h[:8]))
		if verifkit.SampleCount() < 4 {
			il := r.Interleave
			if len(il) > 24 {
				il = il[:24]
			}
			verifkit.Sample(map[string]any{"case": c, "wire_order_head": il, "fired": r.Fired, "applied": r.Applied, "dropped": r.Dropped})
		}
	}
}

func TestVerifC24_HonestWire(t *testing.T) {
	rapid.Check(t, func(t *rapid.T) {
		c := c24GenCase(t, false)
		r := c24Run(c)
		c24Record(c, r)
		c24Check(t, c, r)
	})
}

func TestVerifC24_AdversarialWire(t *testing.T) {
	rapid.Check(t, func(t *rapid.T) {
		// adversarial sessions are short; four independent ones per rapid case
		for i := 0; i < 4; i++ {
			c := c24GenCase(t, true)
			r := c24Run(c)
			c24Record(c, r)
			c24Check(t, c, r)
		}
	})
}

// TestVerifC24_WireFaultMatrix plays every single wire action (each kind and
// inject variant) at every structurally different position of a small
// single-producer stream: first entry, an entry in the middle of a checkpoint
// window, the entry right before a checkpoint, a checkpoint frame, the last
// entry - for CheckpointInterval 1, 4 and larger than the stream.
func TestVerifC24_WireFaultMatrix(t *testing.T) {
	if sh := os.Getenv("VERIF_SHARD"); sh != "" && sh != "0" {
		t.Skip("the matrix is identical in every shard; shard 0 runs it")
	}
	type act struct{ kind, variant string }
	acts := []act{{"flip", ""}, {"dup", ""}, {"drop", ""}, {"swap", ""}, {"replaycp", ""}, {"replayentry", ""},
		{"inject", "othersession"}, {"inject", "payloadswap"}, {"inject", "seqbump"}, {"inject", "notag"}, {"inject", "forgedcp"}}
	const entries = 10
	n := 0
	for _, interval := range []int{1, 4, 64} {
		// frame layout the sender will produce: entry j is followed by a checkpoint when j%interval==0
		var kinds []byte
		for j := 1; j <= entries; j++ {
			kinds = append(kinds, 'e')
			if j%interval == 0 {
				kinds = append(kinds, 'c')
			}
		}
		pos := map[int]bool{0: true, len(kinds) - 1: true}
		for i, k := range kinds {
			if k == 'c' {
				pos[i] = true   // a checkpoint frame
				pos[i-1] = true // the entry right before it
				if i+2 < len(kinds) {
					pos[i+2] = true // an entry inside the next window
				}
				break
			}
		}
		pos[len(kinds)/2] = true
		var plist []int
		for p := range pos {
			plist = append(plist, p)
		}
		sort.Ints(plist)
		for _, a := range acts {
			for _, p := range plist {
				masks := []int{1}
				offs := []int{0}
				if a.kind == "flip" {
					masks = []int{1, 0x20}
					offs = []int{0, 9, 40} // type byte, inside "seq", inside the payload/tag area
				}
				for _, m := range masks {
					for _, off := range offs {
						c := c24Case{Producers: 1, Appends: entries, Seed: uint64(7 + p), SizeClass: "small", Interval: interval, ByteBudget: 1 << 20,
							Actions: []c24Action{{Kind: a.kind, Variant: a.variant, Frame: p, Mask: m, Off: off, Back: 1}}}
						r := c24Run(c)
						c24Record(c, r)
						c24Check(t, c, r)
						n++
					}
				}
			}
		}
	}
	// two actions on adjacent frames: the entry right before a checkpoint and
	// the checkpoint itself are both delayed (or one delayed, one removed), so a
	// LATER genuine entry reaches the reader first; optionally with a bit flip
	// on the delayed entry.
	for _, interval := range []int{2, 4} {
		e := interval - 1 // frame index of the entry right before the first checkpoint
		combos := [][]c24Action{
			{{Kind: "swap", Frame: e}, {Kind: "swap", Frame: e + 1}},
			{{Kind: "swap", Frame: e + 1}, {Kind: "swap", Frame: e}},
			{{Kind: "swap", Frame: e}, {Kind: "drop", Frame: e + 1}},
			{{Kind: "drop", Frame: e}, {Kind: "swap", Frame: e + 1}},
			{{Kind: "drop", Frame: e}, {Kind: "drop", Frame: e + 1}},
			{{Kind: "flip", Frame: e, Off: 18, Mask: 1}, {Kind: "swap", Frame: e}, {Kind: "swap", Frame: e + 1}},
			{{Kind: "swap", Frame: e - 1 + interval + 1}, {Kind: "swap", Frame: e + interval + 1}, {Kind: "swap", Frame: e + interval + 2}},
		}
		for _, acts := range combos {
			c := c24Case{Producers: 1, Appends: entries, Seed: 11, SizeClass: "small", Interval: interval, ByteBudget: 1 << 20, Actions: acts}
			r := c24Run(c)
			c24Record(c, r)
			c24Check(t, c, r)
			n++
		}
	}
	// shapes first met by the thorough tier (kept as fixed regression cases)
	for _, c := range []c24Case{
		{Producers: 2, Appends: 17, Seed: 732614339, SizeClass: "mixed", Interval: 2, ByteBudget: 1 << 20,
			Actions: []c24Action{{Kind: "swap", Frame: 14}, {Kind: "swap", Frame: 13}}},
		{Producers: 1, Appends: 13, Seed: 2, SizeClass: "large", Interval: 8, ByteBudget: 1 << 20,
			Actions: []c24Action{{Kind: "flip", Frame: 7, Off: 18, Mask: 1}, {Kind: "swap", Frame: 7}, {Kind: "swap", Frame: 8}}},
	} {
		r := c24Run(c)
		c24Record(c, r)
		c24Check(t, c, r)
		n++
	}
	verifkit.Note("wire_fault_matrix_cases", n)
}

// ---------------------------------------------------------------- known findings

func TestVerifKF_C24_seq_race(t *testing.T) {
	// 8 producers x 150 tiny appends, no drops; repeated until the writer's own
	// interleaving puts two sequence numbers on the wire out of order.
	rep, what := false, "no out-of-order pair observed in 40 runs"
	for i := 0; i < 40 && !rep; i++ {
		c := c24Case{Producers: 8, Appends: 150, Seed: uint64(i + 1), SizeClass: "tiny", Interval: 64, ByteBudget: 1 << 20}
		r := c24Run(c)
		if r.Class == "C24/healthy-connection-dropped-by-writer-concurrency" {
			rep, what = true, fmt.Sprintf("run %d: %s", i, r.Detail)
		} else if r.Class != "" {
			what = r.Class + ": " + r.Detail
		}
	}
	t.Log(what)
	verifkit.KnownFinding(kfC24SeqRace, rep, what)
}

func TestVerifKF_C24_wire_gap(t *testing.T) {
	// 1 producer, 6 entries, checkpoint every 4: the second entry frame is removed from the wire.
	c := c24Case{Producers: 1, Appends: 6, Seed: 1, SizeClass: "small", Interval: 4, ByteBudget: 1 << 20,
		Actions: []c24Action{{Kind: "drop", Frame: 1}}}
	r := c24Run(c)
	rep := r.Class == "C24/wire-gap-applied"
	what := fmt.Sprintf("class=%q %s applied=%d wire_entries=%d receiver_errors=%d", r.Class, r.Detail, r.Applied, r.WireEntries, r.RecvErrors)
	t.Log(what)
	verifkit.KnownFinding(kfC24WireGap, rep, what)
}
