//go:build verif

package license

// VerifC12Client returns an offline client holding an active licence with the
// tiered_storage feature, so that the /verif C12 harness can build a real
// tiering.Manager (NewManager and RunMigrationCycle are licence-gated).
// Overlaid at check time only.
func VerifC12Client() *Client {
	return &Client{offline: true, license: &License{LicenseKey: "verif", Status: "active",
		Features: []string{FeatureTieredStorage}}}
}
