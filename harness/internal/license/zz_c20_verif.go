//go:build verif

package license

import "time"

// VerifC20Client returns a network-free Client that already holds an active
// licence with the given features. Test seam for the /verif C20 harness: the
// RBAC manager only takes the RBAC branch of CheckPermission when
// licenseClient.GetLicense() is valid and carries FeatureRBAC.
func VerifC20Client(features ...string) *Client {
	return &Client{
		offline: true,
		stopCh:  make(chan struct{}),
		license: &License{
			LicenseKey:    "verif",
			CustomerID:    "verif",
			Tier:          TierEnterprise,
			Features:      append([]string(nil), features...),
			ExpiresAt:     time.Now().Add(24 * 365 * time.Hour),
			Status:        "active",
			DaysRemaining: 365,
		},
	}
}
