//go:build verif

package license

import (
	"time"

	"github.com/rs/zerolog"
)

// VerifC19Client returns an in-memory licence client whose licence is active
// and carries the given features. Used by the C19 harness to open the
// query-governance gate (max_rows per token) without a licence server.
func VerifC19Client(features ...string) *Client {
	return &Client{
		offline: true,
		stopCh:  make(chan struct{}),
		logger:  zerolog.Nop(),
		license: &License{
			LicenseKey:    "verif",
			CustomerID:    "verif",
			CustomerName:  "verif",
			Tier:          TierEnterprise,
			Features:      features,
			Status:        "active",
			ExpiresAt:     time.Date(2999, 1, 1, 0, 0, 0, 0, time.UTC),
			DaysRemaining: 99999,
		},
	}
}
