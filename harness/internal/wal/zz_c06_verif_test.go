//go:build verif

package wal

// C06 - The WAL reader returns only intact entries in append order.
//
// Generator: a small log of 1..8 appends (AppendRaw with a bare columnar map,
// AppendRaw with a pre-built envelope as the replication receiver does,
// AppendRawWithMeta with db names of 0..255 bytes, Append with row maps), a tiny
// MaxSizeBytes so the writer rotates. Then, for every file the writer produced,
// EVERY truncation offset and EVERY single-byte corruption x {flip low bit,
// 0x00, 0xFF} is applied (sampled positions for files above the exhaustive
// limit) and the damaged file is read back with Reader.ReadAll and replayed with
// Recovery.RecoverWithOptions (recording callbacks).
//
// Oracle (from the property statement): what comes back is a subsequence of
// the appended payloads (decoded form + database), each unaltered and in
// append order; for a truncation at offset o it is EXACTLY the entries whose
// last byte lies before o (nothing complete may be hidden, nothing incomplete
// may appear). Which entries lie where in a file is decided by an independent
// frame walk over the bytes the writer produced, not by Arc's reader.

import (
	"bytes"
	"context"
	"encoding/binary"
	"fmt"
	"hash/crc32"
	"math"
	"os"
	"path/filepath"
	"sort"
	"strings"
	"testing"
	"time"

	"github.com/Basekick-Labs/msgpack/v6"
	"github.com/basekick-labs/arc/internal/verifkit"
	"github.com/rs/zerolog"
	"pgregory.net/rapid"
)

const kfC06EmbeddedFrame = "C06-embedded-frame"

// ---------------------------------------------------------------- canonical forms

func c06Canon(b *strings.Builder, v interface{}) {
	switch x := v.(type) {
	case nil:
		b.WriteString("nil")
	case map[string]interface{}:
		ks := make([]string, 0, len(x))
		for k := range x {
			ks = append(ks, k)
		}
		sort.Strings(ks)
		b.WriteByte('{')
		for _, k := range ks {
			fmt.Fprintf(b, "%q:", k)
			c06Canon(b, x[k])
			b.WriteByte(',')
		}
		b.WriteByte('}')
	case []map[string]interface{}:
		b.WriteByte('[')
		for _, e := range x {
			c06Canon(b, e)
			b.WriteByte(',')
		}
		b.WriteByte(']')
	case []interface{}:
		b.WriteByte('[')
		for _, e := range x {
			c06Canon(b, e)
			b.WriteByte(',')
		}
		b.WriteByte(']')
	case float64:
		fmt.Fprintf(b, "f64:%016x", math.Float64bits(x))
	case float32:
		fmt.Fprintf(b, "f32:%08x", math.Float32bits(x))
	case string:
		fmt.Fprintf(b, "s:%q", x)
	case []byte:
		fmt.Fprintf(b, "b:%q", x)
	default:
		fmt.Fprintf(b, "%T:%v", v, v)
	}
}

func c06CanonColumnar(db, m string, cols map[string][]interface{}) string {
	var b strings.Builder
	fmt.Fprintf(&b, "C db=%q m=%q ", db, m)
	ks := make([]string, 0, len(cols))
	for k := range cols {
		ks = append(ks, k)
	}
	sort.Strings(ks)
	for _, k := range ks {
		fmt.Fprintf(&b, "%q:", k)
		c06Canon(&b, cols[k])
		b.WriteByte(';')
	}
	return b.String()
}

func c06CanonRow(r map[string]interface{}) string {
	var b strings.Builder
	b.WriteString("R ")
	c06Canon(&b, r)
	return b.String()
}

// c06Items renders the expected observable items of one logical WAL payload:
// one item for a columnar entry, one item per row for a row-format entry. It is
// the harness's own decoding (same msgpack library, own envelope split and own
// m/columns extraction).
func c06Items(logical []byte) ([]string, error) {
	db, inner := "", logical
	if len(logical) > 3 && logical[0] == 0x01 {
		n := int(binary.BigEndian.Uint16(logical[1:3]))
		if 3+n <= len(logical) {
			db, inner = string(logical[3:3+n]), logical[3+n:]
		}
	}
	var rows []map[string]interface{}
	if err := msgpack.Unmarshal(inner, &rows); err == nil {
		out := make([]string, len(rows))
		for i, r := range rows {
			out[i] = c06CanonRow(r)
		}
		return out, nil
	}
	var mp map[string]interface{}
	if err := msgpack.Unmarshal(inner, &mp); err != nil {
		return nil, fmt.Errorf("not a map: %w", err)
	}
	m, ok := mp["m"].(string)
	if !ok {
		return nil, fmt.Errorf("m is %T", mp["m"])
	}
	cm, ok := mp["columns"].(map[string]interface{})
	if !ok {
		return nil, fmt.Errorf("columns is %T", mp["columns"])
	}
	cols := map[string][]interface{}{}
	for k, v := range cm {
		arr, ok := v.([]interface{})
		if !ok {
			return nil, fmt.Errorf("column %q is %T", k, v)
		}
		cols[k] = arr
	}
	return []string{c06CanonColumnar(db, m, cols)}, nil
}

func c06EntryItems(e Entry) []string {
	if e.ColumnarData != nil {
		return []string{c06CanonColumnar(e.ColumnarData.Database, e.ColumnarData.Measurement, e.ColumnarData.Columns)}
	}
	out := make([]string, len(e.Records))
	for i, r := range e.Records {
		out[i] = c06CanonRow(r)
	}
	return out
}

// ---------------------------------------------------------------- generator

type c06Op struct {
	Kind    string                   `json:"kind"` // raw | rawenv | meta | rows
	DB      string                   `json:"db,omitempty"`
	Payload []byte                   `json:"payload,omitempty"`
	Rows    []map[string]interface{} `json:"rows,omitempty"`
	Shape   string                   `json:"shape"`
}

func (o c06Op) String() string {
	if o.Kind == "rows" {
		return fmt.Sprintf("{%s %v}", o.Kind, o.Rows)
	}
	return fmt.Sprintf("{%s db=%q payload=%x}", o.Kind, o.DB, o.Payload)
}

var c06ColNames = []string{"time", "v", "host", "f", "database", "m", "_database", "x"}

func c06GenString(t *rapid.T, big bool) string {
	max := 12
	if big {
		max = 400
	}
	switch rapid.IntRange(0, 5).Draw(t, "strkind") {
	case 0:
		return ""
	case 1:
		return rapid.StringOfN(rapid.RuneFrom([]rune("abcxyz019 _-")), 0, max, -1).Draw(t, "ascii")
	case 2:
		return string(rapid.SliceOfN(rapid.Byte(), 0, max).Draw(t, "bytes")) // arbitrary bytes, maybe invalid UTF-8
	case 3:
		return strings.Repeat("\x00", rapid.IntRange(1, max+8).Draw(t, "zeros")) // looks like an empty WAL frame
	default:
		return rapid.SampledFrom([]string{"srv1", "eu-west", "ARCW", "\x01\x00\x02db", "é"}).Draw(t, "const")
	}
}

func c06GenValue(t *rapid.T, kind int, big bool) interface{} {
	switch kind {
	case 0:
		return rapid.SampledFrom([]int64{0, 1, -1, 127, 128, 255, 65536, 1700000000000000, -62135596800000000, math.MaxInt64, math.MinInt64}).Draw(t, "int")
	case 1:
		return rapid.SampledFrom([]float64{0, 1.5, -2.25, math.Inf(1), math.MaxFloat64, math.SmallestNonzeroFloat64}).Draw(t, "float")
	case 2:
		return c06GenString(t, big)
	case 3:
		return rapid.Bool().Draw(t, "bool")
	default:
		return nil
	}
}

func c06GenColumns(t *rapid.T, big bool) map[string][]interface{} {
	nrows := rapid.IntRange(1, 3).Draw(t, "nrows")
	ncols := rapid.IntRange(1, 4).Draw(t, "ncols")
	cols := map[string][]interface{}{}
	for c := 0; c < ncols; c++ {
		name := rapid.SampledFrom(c06ColNames).Draw(t, "col")
		kind := rapid.IntRange(0, 4).Draw(t, "colkind")
		arr := make([]interface{}, nrows)
		for r := range arr {
			k := kind
			if rapid.IntRange(0, 5).Draw(t, "null") == 0 {
				k = 4
			}
			arr[r] = c06GenValue(t, k, big && c == 0 && r == 0)
		}
		cols[name] = arr
	}
	return cols
}

func c06MarshalColumnar(m string, cols map[string][]interface{}) []byte {
	cm := map[string]interface{}{}
	for k, v := range cols {
		cm[k] = v
	}
	var buf bytes.Buffer
	enc := msgpack.NewEncoder(&buf)
	enc.SetSortMapKeys(true) // deterministic bytes for a given rapid seed
	if err := enc.Encode(map[string]interface{}{"m": m, "columns": cm}); err != nil {
		panic(err)
	}
	return buf.Bytes()
}

func c06Envelope(db string, payload []byte) []byte {
	out := make([]byte, 0, 3+len(db)+len(payload))
	out = append(out, 0x01, byte(len(db)>>8), byte(len(db)))
	out = append(out, db...)
	return append(out, payload...)
}

func c06Frame(logical []byte, ts uint64) []byte {
	f := make([]byte, 16+len(logical))
	binary.BigEndian.PutUint32(f[0:4], uint32(len(logical)))
	binary.BigEndian.PutUint64(f[4:12], ts)
	binary.BigEndian.PutUint32(f[12:16], crc32.ChecksumIEEE(logical))
	copy(f[16:], logical)
	return f
}

func c06GenDB(t *rapid.T) string {
	switch rapid.IntRange(0, 5).Draw(t, "dbkind") {
	case 0:
		return ""
	case 1:
		return rapid.SampledFrom([]string{"default", "prod", "db-2", "a"}).Draw(t, "dbname")
	case 2:
		return strings.Repeat("d", 255)
	case 3:
		return string(rapid.SliceOfN(rapid.Byte(), 1, 40).Draw(t, "dbbytes"))
	default:
		return rapid.StringOfN(rapid.RuneFrom([]rune("abcdefgh_-09")), 1, 64, -1).Draw(t, "dbascii")
	}
}

// c06EmbeddedPayload builds a columnar payload one of whose string values
// contains a complete, well-formed WAL frame (header + checksum + decodable
// payload). envLen is the length of the envelope that will precede the payload
// inside the entry; when aligned, the frame starts at a multiple of 16 bytes
// from the start of the logical payload (the stride at which the reader
// re-parses bytes after an over-large length field).
func c06EmbeddedPayload(t *rapid.T, envLen int, aligned bool) []byte {
	inner := c06MarshalColumnar("ghost", map[string][]interface{}{"time": {int64(1700000000000000)}, "v": {int64(666)}})
	if rapid.Bool().Draw(t, "ghostenv") {
		inner = c06Envelope("ghostdb", inner)
	}
	frame := c06Frame(inner, 0x0006_0000_0000_0000)
	for pad := 0; pad < 16; pad++ {
		val := strings.Repeat("p", 8+pad) + string(frame) + "tail"
		p := c06MarshalColumnar("outer", map[string][]interface{}{"s": {val}})
		idx := bytes.Index(p, frame)
		if !aligned || (envLen+idx)%16 == 0 {
			return p
		}
	}
	panic("c06: cannot align embedded frame")
}

func c06GenOp(t *rapid.T, big bool) c06Op {
	kind := rapid.SampledFrom([]string{"raw", "rawenv", "meta", "meta", "rows"}).Draw(t, "kind")
	op := c06Op{Kind: kind, Shape: "plain"}
	if big {
		op.Shape = "big"
	}
	if kind == "rows" {
		n := rapid.IntRange(1, 3).Draw(t, "nrecs")
		for i := 0; i < n; i++ {
			row := map[string]interface{}{"_database": rapid.SampledFrom([]string{"default", "prod"}).Draw(t, "rdb"), "_measurement": "cpu"}
			nf := rapid.IntRange(1, 3).Draw(t, "nfields")
			for f := 0; f < nf; f++ {
				row[rapid.SampledFrom(c06ColNames).Draw(t, "rcol")] = c06GenValue(t, rapid.IntRange(0, 4).Draw(t, "rkind"), big && i == 0 && f == 0)
			}
			op.Rows = append(op.Rows, row)
		}
		return op
	}
	if kind != "raw" {
		op.DB = c06GenDB(t)
	}
	embedded := rapid.IntRange(0, 9).Draw(t, "embedded") == 0
	if embedded && verifkit.Excluded(kfC06EmbeddedFrame) {
		verifkit.CountExcluded(kfC06EmbeddedFrame)
		embedded = false
	}
	if embedded {
		envLen := 0
		if kind != "raw" {
			envLen = 3 + len(op.DB)
		}
		op.Payload = c06EmbeddedPayload(t, envLen, rapid.IntRange(0, 3).Draw(t, "aligned") != 0)
		op.Shape = "embedded-frame"
		return op
	}
	m := rapid.SampledFrom([]string{"cpu", "mem", "m", "a-b_c"}).Draw(t, "m")
	op.Payload = c06MarshalColumnar(m, c06GenColumns(t, big))
	return op
}

// ---------------------------------------------------------------- log construction

type c06Frm struct {
	start, end int // [start,end) in the file, header included
	plen       int
	items      []string
	opIdx      int
}

type c06File struct {
	name   string
	data   []byte
	frames []c06Frm
}

type c06Log struct {
	ops     []c06Op
	maxSize int64
	files   []c06File
	items   []string // all expected items, append order
}

func c06Logical(op c06Op) []byte {
	switch op.Kind {
	case "raw":
		return op.Payload
	case "rawenv", "meta":
		return c06Envelope(op.DB, op.Payload)
	}
	return nil
}

// c06Build appends the ops through the real writer and indexes the files it produced.
func c06Build(dir string, ops []c06Op, maxSize int64, backlog ...bool) (*c06Log, error) {
	w, err := NewWriter(&WriterConfig{WALDir: dir, SyncMode: SyncModeAsync, MaxSizeBytes: maxSize, MaxAge: 24 * time.Hour,
		SyncInterval: time.Hour, BufferSize: 64, Logger: zerolog.Nop()})
	if err != nil {
		return nil, fmt.Errorf("NewWriter: %w", err)
	}
	// The append calls are asynchronous: they return before the writer goroutine
	// has put the entry on disk. What was "appended" is the content of the
	// caller's slice at the time of the call, so every call gets a private copy
	// that is overwritten as soon as the call returns (the HTTP server recycles
	// the request body the same way). With backlog the writer goroutine is held
	// behind the writer's mutex until all appends have returned (a queued
	// backlog), otherwise it races freely.
	held := len(backlog) > 0 && backlog[0]
	if held {
		w.mu.Lock()
	}
	scribble := func(b []byte) {
		for i := range b {
			b[i] ^= 0xFF
		}
	}
	for i, op := range ops {
		switch op.Kind {
		case "raw":
			buf := append([]byte(nil), op.Payload...)
			err = w.AppendRaw(buf)
			scribble(buf)
		case "rawenv":
			buf := c06Envelope(op.DB, op.Payload)
			err = w.AppendRaw(buf)
			scribble(buf)
		case "meta":
			buf := append([]byte(nil), op.Payload...)
			err = w.AppendRawWithMeta(op.DB, buf)
			scribble(buf)
		case "rows":
			err = w.Append(op.Rows)
		}
		if err != nil {
			if held {
				w.mu.Unlock()
			}
			w.Close()
			return nil, fmt.Errorf("append %d: %w", i, err)
		}
	}
	if held {
		w.mu.Unlock()
	}
	if err := w.Close(); err != nil {
		return nil, fmt.Errorf("close: %w", err)
	}
	names, _ := filepath.Glob(filepath.Join(dir, "*.wal"))
	sort.Strings(names) // file names carry the creation time with ns resolution
	lg := &c06Log{ops: ops, maxSize: maxSize}
	next := 0
	for _, p := range names {
		data, err := os.ReadFile(p)
		if err != nil {
			return nil, err
		}
		f := c06File{name: filepath.Base(p), data: data}
		if len(data) < WALFileHeaderSize || !bytes.Equal(data[:4], []byte("ARCW")) {
			return nil, fmt.Errorf("writer produced a file without header: %s (%d bytes)", f.name, len(data))
		}
		off := WALFileHeaderSize
		for off < len(data) {
			if off+16 > len(data) {
				return nil, fmt.Errorf("writer left a torn header in %s at %d", f.name, off)
			}
			n := int(binary.BigEndian.Uint32(data[off : off+4]))
			if off+16+n > len(data) {
				return nil, fmt.Errorf("writer left a torn payload in %s at %d", f.name, off)
			}
			logical := data[off+16 : off+16+n]
			if crc32.ChecksumIEEE(logical) != binary.BigEndian.Uint32(data[off+12:off+16]) {
				return nil, fmt.Errorf("writer stored a wrong checksum in %s at %d", f.name, off)
			}
			if next >= len(ops) {
				return nil, fmt.Errorf("more frames on disk than appends")
			}
			op := ops[next]
			var want []string
			if op.Kind == "rows" {
				b, _ := msgpack.Marshal(op.Rows)
				want, err = c06Items(b)
			} else {
				if !bytes.Equal(logical, c06Logical(op)) {
					return nil, fmt.Errorf("frame %d payload differs from what was appended", next)
				}
				want, err = c06Items(logical)
			}
			if err != nil {
				return nil, fmt.Errorf("harness cannot decode its own op %d: %v", next, err)
			}
			got, err := c06Items(logical)
			if err != nil || strings.Join(got, "\n") != strings.Join(want, "\n") {
				return nil, fmt.Errorf("frame %d decodes to something else than what was appended (%v)", next, err)
			}
			f.frames = append(f.frames, c06Frm{start: off, end: off + 16 + n, plen: n, items: want, opIdx: next})
			lg.items = append(lg.items, want...)
			next++
			off += 16 + n
		}
		lg.files = append(lg.files, f)
	}
	if next != len(ops) {
		return nil, fmt.Errorf("%d appends but %d frames on disk", len(ops), next)
	}
	return lg, nil
}

// ---------------------------------------------------------------- oracle helpers

func c06IsSubsequence(got, ref []string) (bool, int) {
	j := 0
	for i, g := range got {
		for j < len(ref) && ref[j] != g {
			j++
		}
		if j == len(ref) {
			return false, i
		}
		j++
	}
	return true, -1
}

func c06Equal(a, b []string) bool {
	if len(a) != len(b) {
		return false
	}
	for i := range a {
		if a[i] != b[i] {
			return false
		}
	}
	return true
}

type c06Damage struct {
	File int    `json:"file"`
	Kind string `json:"kind"` // trunc | flip | zero | ff
	Pos  int    `json:"pos"`
}

// field names the part of the file a position falls in.
func (f *c06File) field(pos int) (string, int) {
	if pos < WALFileHeaderSize {
		return "filehdr", -1
	}
	for i, fr := range f.frames {
		if pos >= fr.start && pos < fr.end {
			o := pos - fr.start
			switch {
			case o < 4:
				return "len", i
			case o < 12:
				return "ts", i
			case o < 16:
				return "crc", i
			}
			if fr.plen > 3 && f.data[fr.start+16] == 0x01 {
				if n := int(binary.BigEndian.Uint16(f.data[fr.start+17 : fr.start+19])); o-16 < 3+n && 3+n <= fr.plen {
					return "envelope", i
				}
			}
			return "payload", i
		}
	}
	return "eof", -1
}

func c06Abbrev(items []string) string {
	var b strings.Builder
	for i, it := range items {
		if len(it) > 160 {
			it = it[:160] + "..."
		}
		fmt.Fprintf(&b, "\n    [%d] %s", i, it)
	}
	return b.String()
}

// c06TB is what the runner needs from *rapid.T / *testing.T.
type c06TB interface {
	Fatalf(format string, args ...any)
}

type c06Runner struct {
	lg        *c06Log
	readDir   string
	recDir    string
	batchSize int
	logKey    string
	evals     int
}

func (r *c06Runner) describe(d c06Damage) string {
	f := r.lg.files[d.File]
	fld, ei := f.field(d.Pos)
	ops := make([]string, len(r.lg.ops))
	for i, o := range r.lg.ops {
		ops[i] = o.String()
	}
	return fmt.Sprintf("damage=%s file#%d(%s, %d bytes) pos=%d field=%s entry#%d maxSize=%d batchSize=%d\n  ops=%s",
		d.Kind, d.File, f.name, len(f.data), d.Pos, fld, ei, r.lg.maxSize, r.batchSize, strings.Join(ops, "\n      "))
}

func (r *c06Runner) apply(d c06Damage) []byte {
	f := r.lg.files[d.File]
	if d.Kind == "trunc" {
		return f.data[:d.Pos]
	}
	out := append([]byte(nil), f.data...)
	switch d.Kind {
	case "flip":
		out[d.Pos] ^= 1
	case "zero":
		out[d.Pos] = 0x00
	case "ff":
		out[d.Pos] = 0xFF
	}
	return out
}

// expectations for the damaged file alone
func (r *c06Runner) fileRef(d c06Damage) (ref []string, exact bool) {
	f := r.lg.files[d.File]
	for _, fr := range f.frames {
		if d.Kind == "trunc" && fr.end > d.Pos {
			break
		}
		ref = append(ref, fr.items...)
	}
	return ref, d.Kind == "trunc"
}

func (r *c06Runner) judge(t c06TB, what string, d c06Damage, got, ref []string, exact bool) {
	if exact {
		if !c06Equal(got, ref) {
			class := "C06/truncation-hides-complete-entry"
			if ok, _ := c06IsSubsequence(got, ref); !ok {
				class = "C06/truncation-yields-incomplete-or-foreign-entry"
			}
			t.Fatalf("VERIF-FAIL class=%s via=%s %s\n  want exactly (%d):%s\n  got (%d):%s", class, what, r.describe(d),
				len(ref), c06Abbrev(ref), len(got), c06Abbrev(got))
		}
		return
	}
	if ok, at := c06IsSubsequence(got, ref); !ok {
		t.Fatalf("VERIF-FAIL class=C06/altered-or-fabricated-entry via=%s %s\n  returned item #%d is not an appended entry in append order\n  appended (%d):%s\n  got (%d):%s",
			what, r.describe(d), at, len(ref), c06Abbrev(ref), len(got), c06Abbrev(got))
	}
}

func (r *c06Runner) checkRead(t c06TB, d c06Damage, damaged []byte) {
	f := r.lg.files[d.File]
	p := filepath.Join(r.readDir, f.name)
	if err := os.WriteFile(p, damaged, 0o600); err != nil {
		t.Fatalf("harness: %v", err)
	}
	rd := NewReader(p, zerolog.Nop())
	entries, err := rd.ReadAll()
	var got []string
	if err == nil {
		for _, e := range entries {
			got = append(got, c06EntryItems(e)...)
		}
	}
	ref, exact := r.fileRef(d)
	if exact && d.Pos < WALFileHeaderSize {
		ref = nil
	}
	r.judge(t, "Reader.ReadAll", d, got, ref, exact)
}

func (r *c06Runner) checkRecovery(t c06TB, d c06Damage, damaged []byte) {
	// fresh directory content: every file of the log, one of them damaged,
	// modification times increasing in creation order
	base := time.Unix(1_700_000_000, 0)
	for i, f := range r.lg.files {
		data := f.data
		if i == d.File {
			data = damaged
		}
		p := filepath.Join(r.recDir, f.name)
		if err := os.WriteFile(p, data, 0o600); err != nil {
			t.Fatalf("harness: %v", err)
		}
		mt := base.Add(time.Duration(i) * time.Second)
		if err := os.Chtimes(p, mt, mt); err != nil {
			t.Fatalf("harness: %v", err)
		}
	}
	var got []string
	rowCb := func(ctx context.Context, records []map[string]interface{}) error {
		for _, rec := range records {
			got = append(got, c06CanonRow(rec))
		}
		return nil
	}
	colCb := func(ctx context.Context, database, measurement string, columns map[string][]interface{}) error {
		got = append(got, c06CanonColumnar(database, measurement, columns))
		return nil
	}
	rec := NewRecovery(r.recDir, zerolog.Nop())
	if _, err := rec.RecoverWithOptions(context.Background(), rowCb, &RecoveryOptions{ColumnarCallback: colCb, BatchSize: r.batchSize}); err != nil {
		t.Fatalf("VERIF-FAIL class=C06/recovery-error %s err=%v", r.describe(d), err)
	}
	// expected over the whole directory: undamaged files contribute everything
	var ref []string
	exact := d.Kind == "trunc"
	for i, f := range r.lg.files {
		if i == d.File {
			fr, _ := r.fileRef(d)
			if exact && d.Pos < WALFileHeaderSize {
				fr = nil
			}
			ref = append(ref, fr...)
			continue
		}
		for _, fr := range f.frames {
			ref = append(ref, fr.items...)
		}
	}
	if !exact && len(r.lg.files) > 1 {
		// entries of the undamaged files must all be there: check them exactly by
		// removing the damaged file's contribution from both sides
		var other []string
		for i, f := range r.lg.files {
			if i != d.File {
				for _, fr := range f.frames {
					other = append(other, fr.items...)
				}
			}
		}
		if ok, _ := c06IsSubsequence(other, got); !ok {
			t.Fatalf("VERIF-FAIL class=C06/damage-in-one-file-hides-entries-of-another via=Recovery %s\n  want at least:%s\n  got:%s",
				r.describe(d), c06Abbrev(other), c06Abbrev(got))
		}
	}
	r.judge(t, "Recovery.RecoverWithOptions", d, got, ref, exact)
	// leave the directory empty for the next case
	left, _ := filepath.Glob(filepath.Join(r.recDir, "*"))
	for _, p := range left {
		os.Remove(p)
	}
}

func (r *c06Runner) run(t c06TB, d c06Damage, withRecovery bool) {
	f := &r.lg.files[d.File]
	damaged := r.apply(d)
	if d.Kind != "trunc" && damaged[d.Pos] == f.data[d.Pos] {
		return // replacement equals the original byte: not a corruption
	}
	r.evals++
	fld, ei := f.field(d.Pos)
	if d.Kind == "trunc" {
		if d.Pos == len(f.data) {
			fld = "nodamage"
		}
	}
	verifkit.Class("damage:" + d.Kind + "/" + fld)
	if ei >= 0 && !(d.Kind == "trunc" && d.Pos == f.frames[ei].start) {
		verifkit.NonTrivial(fmt.Sprintf("%s|%d|%d|%s|%s", r.logKey, d.File, ei, fld, d.Kind))
	}
	r.checkRead(t, d, damaged)
	if withRecovery {
		r.checkRecovery(t, d, damaged)
	}
}

// c06Scratch returns a scratch directory for the thousands of small damaged
// files: tmpfs when the machine has one (file-system cost dominates otherwise),
// else the per-run TMPDIR.
func c06Scratch(t *testing.T) string {
	if d, err := os.MkdirTemp("/dev/shm", "verif-c06-"); err == nil {
		t.Cleanup(func() { os.RemoveAll(d) })
		return d
	}
	return t.TempDir()
}

// ---------------------------------------------------------------- the property

func TestVerifC06_DamageEnumeration(t *testing.T) {
	exhaustiveLimit := verifkit.Scale(700, 1200)
	base := c06Scratch(t)
	caseNo := 0
	rapid.Check(t, func(t *rapid.T) {
		caseNo++
		big := rapid.IntRange(0, 5).Draw(t, "biglog") == 0
		n := rapid.IntRange(1, 8).Draw(t, "nappends")
		if big {
			n = rapid.IntRange(1, 3).Draw(t, "nappendsbig")
		}
		ops := make([]c06Op, n)
		for i := range ops {
			ops[i] = c06GenOp(t, big && i == 0)
		}
		maxSize := rapid.SampledFrom([]int64{1, 64, 150, 300, 600, 1 << 20}).Draw(t, "maxsize")
		batch := rapid.SampledFrom([]int{0, 0, 1, 2}).Draw(t, "batchsize")
		sampleSeed := rapid.IntRange(0, 1<<20).Draw(t, "sampleseed")

		dir, err := os.MkdirTemp(base, "c06-")
		if err != nil {
			t.Fatalf("harness: %v", err)
		}
		defer os.RemoveAll(dir)
		walDir := filepath.Join(dir, "wal")
		backlog := rapid.Bool().Draw(t, "writerbacklog")
		if backlog {
			verifkit.Class("log:appends-return-before-writer-runs")
		}
		lg, err := c06Build(walDir, ops, maxSize, backlog)
		if err != nil {
			t.Fatalf("VERIF-FAIL class=C06/writer-does-not-store-what-was-appended %v\n ops=%v", err, ops)
		}
		r := &c06Runner{lg: lg, readDir: filepath.Join(dir, "read"), recDir: filepath.Join(dir, "rec"), batchSize: batch,
			logKey: fmt.Sprintf("%d/%d", caseNo, len(lg.items))}
		os.MkdirAll(r.readDir, 0o700)
		os.MkdirAll(r.recDir, 0o700)

		verifkit.Class(fmt.Sprintf("files-per-log:%d", min(len(lg.files), 5)))
		for _, op := range ops {
			verifkit.Class("op:" + op.Kind + "/" + op.Shape)
		}
		for fi := range lg.files {
			f := &lg.files[fi]
			size := len(f.data)
			exhaustive := size <= exhaustiveLimit
			if exhaustive {
				verifkit.Class("file:exhaustive")
			} else {
				verifkit.Class("file:sampled")
			}
			pick := func(pos int) bool {
				if exhaustive {
					return true
				}
				fld, _ := f.field(pos)
				if fld != "payload" {
					return true // every header / envelope / file-header byte
				}
				return (pos*2654435761+sampleSeed)%16 == 0
			}
			for pos := 0; pos <= size; pos++ {
				if pos < size && !pick(pos) {
					continue
				}
				r.run(t, c06Damage{File: fi, Kind: "trunc", Pos: pos}, true)
			}
			for pos := 0; pos < size; pos++ {
				if !pick(pos) {
					continue
				}
				fld, _ := f.field(pos)
				// Recovery replays what ReadAll returned; run it for every
				// header byte and a stride of the payload bytes
				// header byte and a stride of the payload bytes. A corrupted length
				// field makes the reader allocate up to 100 MB per mis-parsed
				// header (cost, not correctness), so Recovery sees one of the
				// three values per length byte; ReadAll sees all of them.
				for ki, k := range []string{"flip", "zero", "ff"} {
					withRec := fld != "payload" || pos%5 == 0
					if fld == "len" {
						withRec = (pos+ki)%3 == 0
					}
					r.run(t, c06Damage{File: fi, Kind: k, Pos: pos}, withRec)
				}
			}
		}
		verifkit.EvalN(r.evals)
		if verifkit.SampleCount() < 3 && len(lg.files) > 1 {
			sops := make([]string, len(ops))
			for i, o := range ops {
				s := o.String()
				if len(s) > 120 {
					s = s[:120] + "..."
				}
				sops[i] = s
			}
			sizes := make([]int, len(lg.files))
			for i, f := range lg.files {
				sizes[i] = len(f.data)
			}
			verifkit.Sample(map[string]any{"appends": sops, "max_size_bytes": maxSize, "file_sizes": sizes, "damaged_files_checked": r.evals})
		}
	})
	verifkit.Note("exhaustive_per_file_up_to_bytes", exhaustiveLimit)
}

// TestVerifC06_BatchedRowReplay enumerates completely a small finite space the
// random logs reach only occasionally: one row-format entry of 1..5 records
// between two columnar entries, RecoveryOptions.BatchSize 0..6, every truncation
// offset of the file. Recovery must deliver exactly the records of the entries
// lying wholly before the cut, in order, however they are batched.
func TestVerifC06_BatchedRowReplay(t *testing.T) {
	base := c06Scratch(t)
	col := func(m string) c06Op {
		return c06Op{Kind: "meta", DB: "prod", Payload: c06MarshalColumnar(m, map[string][]interface{}{"time": {int64(1700000000000000)}, "v": {1.5}}), Shape: "plain"}
	}
	cases := 0
	{
		for nrec := 1; nrec <= 5; nrec++ {
			rows := make([]map[string]interface{}, nrec)
			for i := range rows {
				rows[i] = map[string]interface{}{"_database": "prod", "_measurement": "cpu", "time": int64(1700000000000000 + i), "seq": int64(i)}
			}
			ops := []c06Op{col("before"), {Kind: "rows", Rows: rows, Shape: "plain"}, col("after")}
			dir, err := os.MkdirTemp(base, "c06b-")
			if err != nil {
				t.Fatalf("harness: %v", err)
			}
			lg, err := c06Build(filepath.Join(dir, "wal"), ops, 1<<20)
			if err != nil {
				t.Fatalf("VERIF-FAIL class=C06/writer-does-not-store-what-was-appended %v", err)
			}
			for batch := 0; batch <= 6; batch++ {
				r := &c06Runner{lg: lg, readDir: filepath.Join(dir, "read"), recDir: filepath.Join(dir, "rec"), batchSize: batch,
					logKey: fmt.Sprintf("batched/%d/%d", nrec, batch)}
				os.MkdirAll(r.readDir, 0o700)
				os.MkdirAll(r.recDir, 0o700)
				for pos := 0; pos <= len(lg.files[0].data); pos++ {
					r.run(t, c06Damage{File: 0, Kind: "trunc", Pos: pos}, true)
				}
				cases += r.evals
			}
			os.RemoveAll(dir)
		}
	}
	verifkit.EvalN(cases)
	verifkit.Class("batched-row-replay:enumerated")
	verifkit.Note("batched_row_replay_cases", cases)
}

// ---------------------------------------------------------------- known finding

// c06EmbeddedMinimal is the minimal input of finding C06-embedded-frame: ONE
// appended entry whose string value contains a well-formed frame at a multiple
// of 16 bytes from the payload start, then the high byte of the entry's
// length field overwritten with 0xFF.
func c06EmbeddedMinimal() (payload []byte, ghost string) {
	inner := c06MarshalColumnar("ghost", map[string][]interface{}{"time": {int64(1700000000000000)}, "v": {int64(666)}})
	frame := c06Frame(inner, 0x0006_0000_0000_0000)
	for pad := 0; pad < 16; pad++ {
		p := c06MarshalColumnar("outer", map[string][]interface{}{"s": {strings.Repeat("p", 8+pad) + string(frame)}})
		if bytes.Index(p, frame)%16 == 0 {
			items, _ := c06Items(inner)
			return p, items[0]
		}
	}
	panic("unreachable")
}

func TestVerifKF_C06_embedded_frame(t *testing.T) {
	dir := t.TempDir()
	payload, ghost := c06EmbeddedMinimal()
	lg, err := c06Build(filepath.Join(dir, "wal"), []c06Op{{Kind: "raw", Payload: payload}}, 1<<20)
	if err != nil {
		t.Logf("build: %v", err)
		verifkit.KnownFinding(kfC06EmbeddedFrame, false, "could not build the log: "+err.Error())
		return
	}
	f := lg.files[0]
	damaged := append([]byte(nil), f.data...)
	damaged[f.frames[0].start] = 0xFF // high byte of the length field
	p := filepath.Join(dir, "damaged.wal")
	os.WriteFile(p, damaged, 0o600)
	entries, _ := NewReader(p, zerolog.Nop()).ReadAll()
	rep := false
	for _, e := range entries {
		for _, it := range c06EntryItems(e) {
			if it == ghost {
				rep = true
			}
		}
	}
	t.Logf("payload=%x entries=%d reproduced=%v", payload, len(entries), rep)
	verifkit.KnownFinding(kfC06EmbeddedFrame, rep,
		"after a single-byte corruption of an entry's length field Reader.ReadAll re-parses the payload bytes as entry headers and returns a never-appended entry embedded in a string value")
}
