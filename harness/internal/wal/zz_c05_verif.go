//go:build verif

package wal

// Test seam for the C05 harness (package main of cmd/arc cannot reach the
// writer's mutex). VerifC05HoldWriter parks the background writer goroutine -
// it blocks on the writer's mutex before putting the next queued entry on disk,
// exactly as it does while a sync/rotation holds the mutex - until the returned
// function is called. Appends are not affected (they only enqueue).
func VerifC05HoldWriter(w *Writer) (release func()) {
	w.mu.Lock()
	return w.mu.Unlock
}
