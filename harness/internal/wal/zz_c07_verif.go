//go:build verif

package wal

// VerifC07Rotate forces a rotation exactly as writeEntry does when the size/age
// threshold is reached (same call, same lock).
func (w *Writer) VerifC07Rotate() error {
	w.mu.Lock()
	defer w.mu.Unlock()
	return w.rotate()
}

// VerifC07Pending is the number of entries accepted by Append* that the writer
// goroutine has not taken from the channel yet.
func (w *Writer) VerifC07Pending() int { return len(w.entryChan) }
