//go:build verif

package edgesync

// C27 - edge sync delivers each file exactly once with verified content.
//
// Real Agent + real Ledger (SQLite FILE, reopened on every "restart") on the
// spoke side; real Receiver / Reconciler / HubIndex on a LocalBackend on the hub
// side. The only harness code between them is c27Transport, a SyncTransport
// that calls the real hub objects and injects ONE scripted fault per call.
//
// Spoke crash = "the process stops writing its ledger": every row write of
// sync_ledger passes a BEFORE trigger that asks the harness gate; once the gate
// is closed (at the k-th row write, or at a chosen point inside a transport
// call) every later write aborts and the transport refuses further calls. The
// abandoned agent is dropped, the database file is reopened and the next
// Agent.Run performs RecoverInFlight exactly as after a process restart.
//
// Ledger transitions are observed independently of the ledger code by AFTER
// INSERT/UPDATE/DELETE triggers that log OLD.state -> NEW.state into c27_log.

import (
	"bytes"
	"context"
	"crypto/sha256"
	"database/sql"
	"encoding/hex"
	"errors"
	"fmt"
	"io"
	"math/rand"
	"os"
	"path"
	"path/filepath"
	"strings"
	"sync"
	"sync/atomic"
	"testing"
	"time"

	"github.com/basekick-labs/arc/internal/storage"
	"github.com/basekick-labs/arc/internal/verifkit"
	sqlite3 "github.com/mattn/go-sqlite3"
	"github.com/rs/zerolog"
	"pgregory.net/rapid"
)

const (
	c27SpokeID = "rocket-01"
	c27HubID   = DefaultHubID
	c27Driver  = "sqlite3_c27"
)

// ---------------------------------------------------------------- crash gate

type c27Gate struct {
	mu      sync.Mutex
	writes  int
	crashAt int // close the gate at this row write (0 = never)
	crashed bool
	failN   int // transient ledger error: the next failN row writes abort, the process lives on
}

func (g *c27Gate) onWrite() int64 {
	g.mu.Lock()
	defer g.mu.Unlock()
	if g.crashed {
		return 0
	}
	if g.failN > 0 {
		g.failN--
		return 0
	}
	g.writes++
	if g.crashAt > 0 && g.writes >= g.crashAt {
		g.crashed = true
		return 0
	}
	return 1
}

func (g *c27Gate) crash() { g.mu.Lock(); g.crashed = true; g.mu.Unlock() }

func (g *c27Gate) isCrashed() bool { g.mu.Lock(); defer g.mu.Unlock(); return g.crashed }

func (g *c27Gate) arm(k int) {
	g.mu.Lock()
	g.writes, g.crashAt, g.crashed, g.failN = 0, k, false, 0
	g.mu.Unlock()
}

func (g *c27Gate) failNext(n int) { g.mu.Lock(); g.failN = n; g.mu.Unlock() }

var c27GateCur atomic.Pointer[c27Gate]

func init() {
	sql.Register(c27Driver, &sqlite3.SQLiteDriver{
		ConnectHook: func(conn *sqlite3.SQLiteConn) error {
			return conn.RegisterFunc("c27_gate", func() int64 {
				if g := c27GateCur.Load(); g != nil {
					return g.onWrite()
				}
				return 1
			}, false)
		},
	})
}

const c27Triggers = `
CREATE TABLE IF NOT EXISTS c27_log (
	seq INTEGER PRIMARY KEY AUTOINCREMENT, op TEXT, path TEXT,
	old TEXT, new TEXT, old_note TEXT, new_note TEXT);
CREATE TRIGGER IF NOT EXISTS c27_bu BEFORE UPDATE ON sync_ledger BEGIN
	SELECT RAISE(ABORT, 'c27: spoke process is dead') WHERE c27_gate() = 0; END;
CREATE TRIGGER IF NOT EXISTS c27_bi BEFORE INSERT ON sync_ledger BEGIN
	SELECT RAISE(ABORT, 'c27: spoke process is dead') WHERE c27_gate() = 0; END;
CREATE TRIGGER IF NOT EXISTS c27_bd BEFORE DELETE ON sync_ledger BEGIN
	SELECT RAISE(ABORT, 'c27: spoke process is dead') WHERE c27_gate() = 0; END;
CREATE TRIGGER IF NOT EXISTS c27_au AFTER UPDATE ON sync_ledger BEGIN
	INSERT INTO c27_log(op, path, old, new, old_note, new_note)
	VALUES ('U', NEW.path, OLD.state, NEW.state, COALESCE(OLD.last_error,''), COALESCE(NEW.last_error,'')); END;
CREATE TRIGGER IF NOT EXISTS c27_ai AFTER INSERT ON sync_ledger BEGIN
	INSERT INTO c27_log(op, path, old, new, old_note, new_note)
	VALUES ('I', NEW.path, '', NEW.state, '', COALESCE(NEW.last_error,'')); END;
CREATE TRIGGER IF NOT EXISTS c27_ad AFTER DELETE ON sync_ledger BEGIN
	INSERT INTO c27_log(op, path, old, new, old_note, new_note)
	VALUES ('D', OLD.path, OLD.state, '', COALESCE(OLD.last_error,''), ''); END;
`

// c27Allowed is the documented transition table: the SyncState comments in
// ledger.go plus the from-lists every Mark*/Requeue*/Dismiss*/Revert*/
// RecoverInFlight passes to its guarded UPDATE / checkTransition.
var c27Allowed = map[string]bool{
	"pending>in_flight":  true, // MarkInFlight
	"pending>synced":     true, // MarkSynced (reconcile reported present)
	"pending>skipped":    true, // MarkSkipped
	"pending>failed":     true, // MarkConflicted
	"pending>exported":   true, // MarkExported
	"in_flight>synced":   true, // MarkSynced
	"in_flight>pending":  true, // MarkFailed below the cap, RecoverInFlight
	"in_flight>failed":   true, // MarkFailed at the cap
	"in_flight>skipped":  true, // MarkSkipped
	"exported>synced":    true, // ack bundle
	"exported>pending":   true, // RevertExported
	"failed>pending":     true, // RequeueFailed
	"failed>skipped":     true, // DismissFailed
	"skipped>pending(d)": true, // RequeueFailed of an operator-dismissed row
}

// ---------------------------------------------------------------- hub backend

// c27HubBackend is the hub's LocalBackend with (a) a counter of completed
// writes per non-staging path (= promotions) and (b) one-shot injected storage
// failures on the promote write.
type c27HubBackend struct {
	*storage.LocalBackend
	mu       sync.Mutex
	failNext map[string]int // final path -> 1 fail immediately, 2 fail mid-stream
	promotes map[string]int
}

type c27FailingReader struct {
	r     io.Reader
	after int64
}

func (f *c27FailingReader) Read(p []byte) (int, error) {
	if f.after <= 0 {
		return 0, errors.New("c27: injected hub storage failure mid-write")
	}
	if int64(len(p)) > f.after {
		p = p[:f.after]
	}
	n, err := f.r.Read(p)
	f.after -= int64(n)
	return n, err
}

func (b *c27HubBackend) WriteReader(ctx context.Context, p string, r io.Reader, size int64) error {
	if strings.HasPrefix(p, StagingPrefix+"/") {
		return b.LocalBackend.WriteReader(ctx, p, r, size)
	}
	b.mu.Lock()
	mode := b.failNext[p]
	delete(b.failNext, p)
	b.mu.Unlock()
	switch mode {
	case 1:
		return errors.New("c27: injected hub storage failure")
	case 2:
		r = &c27FailingReader{r: r, after: size / 2}
	}
	err := b.LocalBackend.WriteReader(ctx, p, r, size)
	if err == nil {
		b.mu.Lock()
		b.promotes[p]++
		b.mu.Unlock()
	}
	return err
}

// ---------------------------------------------------------------- model

type c27File struct {
	Path      string
	Content   []byte
	SHA       string
	OnSpoke   bool
	Compacted bool // a gated spoke-compaction output: content already delivered, must never sync
}

type c27PutFault struct {
	Kind string
	K    int64 // body cut
	I    int64 // corrupted byte index
}

type c27RecFault struct {
	Kind string
	K    int
	Path string
}

type c27Rig struct {
	t    *rapid.T
	root string

	spokeBE *storage.LocalBackend
	hubBE   *c27HubBackend
	hubDB   *sql.DB
	index   *HubIndex
	recv    *Receiver
	recon   *Reconciler

	ledgerPath string
	spokeDB    *sql.DB
	ledger     *Ledger
	agent      *Agent
	gate       *c27Gate
	tr         *c27Transport

	maxAttempts, maxConcurrent, batchSize, reconMax int
	epoch                                          time.Time

	mu             sync.Mutex // guards the maps below (the transport runs in agent goroutines)
	files          map[string]*c27File
	order          []string
	foreign        map[string][]byte // source path -> content a colliding writer committed on the hub
	hubCompacted   map[string]bool   // source paths the hub's compaction consumed
	hubOutputs     map[string]bool   // hub paths of hub-side compacted outputs
	hubGone        map[string]bool   // hub copy removed by the harness AFTER the spoke had marked it synced
	hubVanishCount map[string]int
	everVanished   map[string]bool // spoke source removed by the harness (vanish or compaction)

	passCancel  context.CancelFunc // ends the running pass's context (contact window closes / run timeout)
	lastSeq     int64
	allowDelete bool
	counter     int
	history     []string
	faulted     bool // any fault / disturbance was injected in this history
	sawUnacked  bool // hub held a file the ledger had not yet marked synced (lost ack / crash after commit)
	trans       map[string]int
}

func c27SHA(b []byte) string { s := sha256.Sum256(b); return hex.EncodeToString(s[:]) }

func (r *c27Rig) note(format string, a ...any) {
	r.history = append(r.history, fmt.Sprintf(format, a...))
}

func (r *c27Rig) fail(class, format string, a ...any) {
	msg := fmt.Sprintf(format, a...)
	verifkit.WriteReplay("c27-history", map[string]any{"class": class, "what": msg, "history": r.history,
		"config": map[string]int{"max_attempts": r.maxAttempts, "max_concurrent": r.maxConcurrent, "batch_size": r.batchSize, "reconcile_max": r.reconMax}})
	r.t.Fatalf("VERIF-FAIL class=C27/%s %s\nhistory:\n  %s", class, msg, strings.Join(r.history, "\n  "))
}

func (r *c27Rig) must(err error, what string) {
	if err != nil {
		r.t.Fatalf("HARNESS %s: %v", what, err)
	}
}

func c27NewRig(t *rapid.T) *c27Rig {
	root, err := os.MkdirTemp("", "c27-")
	if err != nil {
		t.Fatalf("HARNESS tempdir: %v", err)
	}
	r := &c27Rig{t: t, root: root,
		files: map[string]*c27File{}, foreign: map[string][]byte{}, hubCompacted: map[string]bool{},
		hubOutputs: map[string]bool{}, hubGone: map[string]bool{}, hubVanishCount: map[string]int{},
		everVanished: map[string]bool{}, trans: map[string]int{},
		epoch: time.Date(2026, 1, 1, 0, 0, 0, 0, time.UTC)}
	r.maxAttempts = rapid.SampledFrom([]int{0, 0, 2, 3}).Draw(t, "maxAttempts") // 0 = DefaultMaxAttempts
	r.maxConcurrent = rapid.SampledFrom([]int{1, 1, 1, 2}).Draw(t, "maxConcurrent")
	r.batchSize = rapid.SampledFrom([]int{0, 0, 1, 2, 3}).Draw(t, "batchSize")
	r.reconMax = rapid.SampledFrom([]int{0, 0, 2, 3}).Draw(t, "reconcileMaxEntries")
	r.note("config maxAttempts=%d maxConcurrent=%d batchSize=%d reconcileMax=%d", r.maxAttempts, r.maxConcurrent, r.batchSize, r.reconMax)

	nop := zerolog.Nop()
	sb, err := storage.NewLocalBackend(filepath.Join(root, "spoke"), nop)
	r.must(err, "spoke backend")
	r.spokeBE = sb
	hb, err := storage.NewLocalBackend(filepath.Join(root, "hub"), nop)
	r.must(err, "hub backend")
	r.hubBE = &c27HubBackend{LocalBackend: hb, failNext: map[string]int{}, promotes: map[string]int{}}

	r.hubDB, err = sql.Open("sqlite3", filepath.Join(root, "hub.db")+"?_journal_mode=WAL&_busy_timeout=5000&_synchronous=OFF")
	r.must(err, "hub db")
	r.hubDB.SetMaxOpenConns(1)
	r.index, err = NewHubIndex(r.hubDB, nop)
	r.must(err, "hub index")
	r.recv, err = NewReceiver(ReceiverConfig{Backend: r.hubBE, Index: r.index, Logger: nop})
	r.must(err, "receiver")
	r.recon, err = NewReconciler(ReconcilerConfig{Index: r.index, Backend: r.hubBE, MaxEntries: r.reconMax})
	r.must(err, "reconciler")

	r.gate = &c27Gate{}
	c27GateCur.Store(r.gate)
	r.tr = &c27Transport{rig: r, put: map[string]c27PutFault{}}
	r.ledgerPath = filepath.Join(root, "spoke.db")
	r.openSpoke()
	return r
}

func (r *c27Rig) openSpoke() {
	db, err := sql.Open(c27Driver, r.ledgerPath+"?_journal_mode=WAL&_busy_timeout=5000&_synchronous=OFF")
	r.must(err, "spoke db")
	db.SetMaxOpenConns(1)
	r.spokeDB = db
	r.ledger, err = NewLedger(db, zerolog.Nop())
	r.must(err, "ledger")
	_, err = db.Exec(c27Triggers)
	r.must(err, "install observation triggers")
	r.agent, err = NewAgent(AgentConfig{Ledger: r.ledger, Transport: r.tr, Backend: r.spokeBE, HubID: c27HubID,
		SpokeID: c27SpokeID, MaxAttempts: r.maxAttempts, MaxConcurrent: r.maxConcurrent, BatchSize: r.batchSize, Logger: zerolog.Nop()})
	r.must(err, "agent")
	r.agent.SetCompactionDeferEpoch(r.epoch)
}

// restart drops the agent and ledger handle and reopens the database file.
func (r *c27Rig) restart() {
	_ = r.spokeDB.Close()
	r.gate.arm(0)
	r.openSpoke()
}

func (r *c27Rig) close() {
	_ = r.spokeDB.Close()
	_ = r.hubDB.Close()
	c27GateCur.Store(nil)
	_ = os.RemoveAll(r.root)
}

// ---------------------------------------------------------------- transport

type c27Transport struct {
	rig *c27Rig
	mu  sync.Mutex
	put map[string]c27PutFault // one scripted fault for the next PutFile of a path
	rec []c27RecFault          // scripted faults for the next Reconcile calls, in order
	// recByPath: a fault for the next Reconcile whose batch asks about that path
	// (independent of paging), used by the directed sub-generator
	recByPath map[string]c27RecFault
}

var errC27Dead = errors.New("c27: spoke process is dead")

type c27FlipReader struct {
	r   io.Reader
	at  int64
	pos int64
}

func (f *c27FlipReader) Read(p []byte) (int, error) {
	n, err := f.r.Read(p)
	if f.at >= f.pos && f.at < f.pos+int64(n) {
		p[f.at-f.pos] ^= 0x5a
	}
	f.pos += int64(n)
	return n, err
}

func (t *c27Transport) receive(ctx context.Context, e *LedgerEntry, body io.Reader, offset int64) (*PutResult, error) {
	// only the content-describing fields of the entry cross the wire
	return t.rig.recv.Receive(ctx, c27SpokeID, e.Path, e.SHA256, e.SizeBytes, offset, body)
}

func (t *c27Transport) PutFile(ctx context.Context, hubID string, e *LedgerEntry, body io.Reader, offset int64) (*PutResult, error) {
	if t.rig.gate.isCrashed() {
		return nil, errC27Dead
	}
	t.mu.Lock()
	f := t.put[e.Path]
	delete(t.put, e.Path)
	t.mu.Unlock()
	remaining := e.SizeBytes - offset
	cut := func() int64 {
		if remaining <= 0 {
			return 0
		}
		return f.K % remaining // 0 .. remaining-1: always short
	}
	flip := func(within int64) io.Reader {
		if within <= 0 {
			return body
		}
		return &c27FlipReader{r: body, at: f.I % within}
	}
	verifkit.Class("put:" + map[bool]string{true: "none", false: f.Kind}[f.Kind == ""])
	switch f.Kind {
	case "":
		return t.receive(ctx, e, body, offset)
	case "dropBefore":
		return nil, errors.New("c27: connection dropped before the request reached the hub")
	case "dropAfter":
		_, _ = t.receive(ctx, e, body, offset)
		return nil, errors.New("c27: acknowledgement lost")
	case "short":
		return t.receive(ctx, e, io.LimitReader(body, cut()), offset)
	case "shortLost":
		_, _ = t.receive(ctx, e, io.LimitReader(body, cut()), offset)
		return nil, errors.New("c27: link dropped mid-stream")
	case "corrupt":
		return t.receive(ctx, e, flip(remaining), offset)
	case "corruptShort":
		k := cut()
		return t.receive(ctx, e, io.LimitReader(flip(k), k), offset)
	case "backpressure":
		return BackpressureResult(time.Second), nil
	case "invalid":
		if f.K%2 == 0 {
			return &PutResult{Outcome: OutcomePartial, BytesAccepted: e.SizeBytes}, nil
		}
		return &PutResult{Outcome: PutOutcome("accepted-ish"), BytesAccepted: e.SizeBytes}, nil
	case "hubFail", "hubFailMid":
		t.rig.hubBE.mu.Lock()
		t.rig.hubBE.failNext[NamespacedPath(c27SpokeID, e.Path)] = map[string]int{"hubFail": 1, "hubFailMid": 2}[f.Kind]
		t.rig.hubBE.mu.Unlock()
		res, err := t.receive(ctx, e, body, offset)
		t.rig.hubBE.mu.Lock()
		delete(t.rig.hubBE.failNext, NamespacedPath(c27SpokeID, e.Path))
		t.rig.hubBE.mu.Unlock()
		return res, err
	case "crashAfter":
		res, err := t.receive(ctx, e, body, offset)
		t.rig.gate.crash()
		return res, err
	case "crashBefore":
		t.rig.gate.crash()
		return nil, errC27Dead
	case "ctxEndBefore", "ctxEndAfter":
		// the pass context ends while this transfer is outstanding (run timeout, client
		// disconnect, contact window closing); the process and the Agent object live on
		if f.Kind == "ctxEndAfter" {
			_, _ = t.receive(ctx, e, body, offset)
		}
		t.rig.mu.Lock()
		cancel := t.rig.passCancel
		t.rig.mu.Unlock()
		cancel()
		return nil, ctx.Err()
	case "ledgerErrAfter":
		// the hub answers, then the spoke's next ledger writes fail transiently
		// (SQLITE_BUSY past the timeout, disk full); no restart follows
		res, err := t.receive(ctx, e, body, offset)
		t.rig.gate.failNext(int(f.K%2) + 1)
		return res, err
	case "sweepBefore":
		_, _ = t.rig.recv.SweepStaging(ctx, time.Second, time.Now().Add(time.Hour))
		return t.receive(ctx, e, body, offset)
	case "foreignBefore":
		t.rig.seedForeignMode(e.Path, f.K%2 == 0)
		return t.receive(ctx, e, body, offset)
	}
	return nil, fmt.Errorf("c27: unknown fault %q", f.Kind)
}

func (t *c27Transport) Reconcile(ctx context.Context, hubID string, pending []*LedgerEntry) (*ReconcileResult, error) {
	if t.rig.gate.isCrashed() {
		return nil, errC27Dead
	}
	t.mu.Lock()
	var f c27RecFault
	for _, e := range pending {
		if pf, ok := t.recByPath[e.Path]; ok && f.Kind == "" {
			f = pf
			delete(t.recByPath, e.Path)
		}
	}
	if f.Kind == "" && len(t.rec) > 0 {
		f, t.rec = t.rec[0], t.rec[1:]
	}
	t.mu.Unlock()
	real := func() (*ReconcileResult, error) {
		entries := make([]ReconcileEntry, 0, len(pending))
		for _, e := range pending {
			entries = append(entries, ReconcileEntry{Path: e.Path, SHA256: e.SHA256, SizeBytes: e.SizeBytes})
		}
		res, err := t.rig.recon.Reconcile(ctx, c27SpokeID, entries)
		if errors.Is(err, ErrReconcileTooLarge) {
			// what the hub's handler + HTTPTransport make of it (413 with max_entries)
			return nil, &ReconcileTooLargeError{MaxEntries: t.rig.recon.MaxEntries()}
		}
		return res, err
	}
	verifkit.Class("reconcile:" + map[bool]string{true: "none", false: f.Kind}[f.Kind == ""])
	switch f.Kind {
	case "dropBefore":
		return nil, errors.New("c27: reconcile request lost")
	case "dropAfter":
		_, _ = real()
		return nil, errors.New("c27: reconcile answer lost")
	case "tooLarge":
		if len(pending) > 1 {
			return nil, &ReconcileTooLargeError{MaxEntries: f.K % len(pending)}
		}
	case "crashAfter":
		res, err := real()
		t.rig.gate.crash()
		return res, err
	case "foreign":
		for _, e := range pending {
			if e.Path == f.Path {
				t.rig.seedForeign(f.Path)
			}
		}
	}
	return real()
}

var _ SyncTransport = (*c27Transport)(nil)

// seedForeign makes a colliding writer (same spoke ID, different bytes) commit
// content at a path through the REAL receiver, unless the hub already knows the path.
func (r *c27Rig) seedForeign(p string) bool { return r.seedForeignMode(p, true) }

// seedForeignMode: indexed=false puts the colliding bytes at the hub path WITHOUT a
// receipt (file older than the receipt index, index database restored or recreated):
// reconcile then answers "missing" and the conflict only surfaces during the transfer.
func (r *c27Rig) seedForeignMode(p string, indexed bool) bool {
	ctx := context.Background()
	r.mu.Lock()
	_, already := r.foreign[p]
	r.mu.Unlock()
	if already {
		return false
	}
	held, err := r.index.Lookup(ctx, c27SpokeID, []string{p})
	r.must(err, "lookup")
	if _, ok := held[p]; ok {
		return false
	}
	if ok, _ := r.hubBE.Exists(ctx, NamespacedPath(c27SpokeID, p)); ok {
		return false
	}
	content := []byte("FOREIGN-WRITER:" + p)
	if !indexed {
		r.must(r.hubBE.LocalBackend.Write(ctx, NamespacedPath(c27SpokeID, p), content), "write un-indexed foreign file")
		r.mu.Lock()
		r.foreign[p] = content
		r.mu.Unlock()
		verifkit.Class("foreign-file-without-receipt")
		return true
	}
	res, err := r.recv.Receive(ctx, c27SpokeID, p, c27SHA(content), int64(len(content)), 0, bytes.NewReader(content))
	if err != nil || res.Outcome != OutcomeCommitted {
		r.t.Fatalf("HARNESS foreign seed of %s: res=%+v err=%v", p, res, err)
	}
	r.mu.Lock()
	r.foreign[p] = content
	r.mu.Unlock()
	return true
}

// ---------------------------------------------------------------- observations

type c27Row struct {
	Path, SHA, State, Note string
	Size, BytesSent        int64
	Attempts               int
}

func (r *c27Rig) ledgerRows() map[string]c27Row {
	rows, err := r.spokeDB.Query(`SELECT path, sha256, size_bytes, state, COALESCE(last_error,''), bytes_sent, attempts FROM sync_ledger WHERE hub_id = ?`, c27HubID)
	r.must(err, "read ledger")
	defer rows.Close()
	out := map[string]c27Row{}
	for rows.Next() {
		var x c27Row
		r.must(rows.Scan(&x.Path, &x.SHA, &x.Size, &x.State, &x.Note, &x.BytesSent, &x.Attempts), "scan ledger")
		out[x.Path] = x
	}
	r.must(rows.Err(), "iterate ledger")
	return out
}

type c27Receipt struct {
	HubPath, SHA string
	Size         int64
	Compacted    bool
}

func (r *c27Rig) receipts() map[string]c27Receipt {
	rows, err := r.hubDB.Query(`SELECT spoke_id, source_path, hub_path, sha256, size_bytes, compacted_at IS NOT NULL FROM sync_received`)
	r.must(err, "read receipts")
	defer rows.Close()
	out := map[string]c27Receipt{}
	for rows.Next() {
		var spoke, src string
		var x c27Receipt
		r.must(rows.Scan(&spoke, &src, &x.HubPath, &x.SHA, &x.Size, &x.Compacted), "scan receipt")
		if spoke != c27SpokeID {
			r.fail("receipt-foreign-spoke", "receipt for spoke %q path %q: only %q ever sent anything", spoke, src, c27SpokeID)
		}
		if _, dup := out[src]; dup {
			r.fail("stored-twice", "two hub receipts for spoke path %q", src)
		}
		out[src] = x
	}
	r.must(rows.Err(), "iterate receipts")
	return out
}

// hubFiles returns every reader-visible file in the hub storage (outside the
// staging area), keyed by hub path. "*.part" is LocalBackend's private
// in-progress name: no reader, listing consumer or reconcile consults it.
func (r *c27Rig) hubFiles() map[string][]byte {
	base := filepath.Join(r.root, "hub")
	out := map[string][]byte{}
	err := filepath.WalkDir(base, func(p string, d os.DirEntry, err error) error {
		if err != nil || d.IsDir() {
			return err
		}
		rel, _ := filepath.Rel(base, p)
		rel = filepath.ToSlash(rel)
		if strings.HasPrefix(rel, StagingPrefix+"/") || strings.HasSuffix(rel, ".part") {
			return nil
		}
		b, err := os.ReadFile(p)
		if err != nil {
			return err
		}
		out[rel] = b
		return nil
	})
	r.must(err, "walk hub")
	return out
}

func (r *c27Rig) hubHolds(p string, hub map[string][]byte, rc map[string]c27Receipt, sha string) bool {
	if b, ok := hub[NamespacedPath(c27SpokeID, p)]; ok && c27SHA(b) == sha {
		return true
	}
	if x, ok := rc[p]; ok && x.Compacted && x.SHA == sha {
		return true
	}
	return false
}

// check evaluates every always-invariant of the property.
func (r *c27Rig) check(where string) {
	r.mu.Lock()
	defer r.mu.Unlock()
	hub := r.hubFiles()
	rc := r.receipts()
	rows := r.ledgerRows()

	// (1) the hub never exposes bytes that differ from the spoke file the path names,
	//     and never stores the same spoke file twice
	for _, hp := range verifkit.SortedKeys(hub) {
		b := hub[hp]
		if r.hubOutputs[hp] {
			continue
		}
		if !strings.HasPrefix(hp, c27SpokeID+"/") {
			r.fail("hub-namespace-escape", "[%s] hub file %q is outside the spoke's namespace", where, hp)
		}
		src := strings.TrimPrefix(hp, c27SpokeID+"/")
		if fc, ok := r.foreign[src]; ok {
			if !bytes.Equal(b, fc) {
				r.fail("conflict-overwritten", "[%s] hub path %q held a colliding writer's content and was overwritten (now sha %s)", where, hp, c27SHA(b))
			}
			continue
		}
		f, ok := r.files[src]
		if !ok {
			r.fail("hub-unknown-file", "[%s] hub exposes %q, which names no spoke file", where, hp)
		}
		if c27SHA(b) != f.SHA {
			r.fail("hub-exposes-wrong-bytes", "[%s] hub file %q has sha %s (%d bytes); the spoke file has sha %s (%d bytes)", where, hp, c27SHA(b), len(b), f.SHA, len(f.Content))
		}
		if f.Compacted {
			r.fail("stored-twice", "[%s] compacted output %q (inputs were all delivered) reached the hub: its rows are stored twice", where, src)
		}
		if r.hubCompacted[src] {
			r.fail("stored-twice", "[%s] raw %q was re-accepted next to the hub's compacted output that already contains it", where, src)
		}
		if n := r.hubBE.promotes[hp]; n > 1+r.hubVanishCount[src] {
			r.fail("stored-twice", "[%s] hub promoted %q %d times (hub copies removed by the harness: %d)", where, hp, n, r.hubVanishCount[src])
		}
	}
	// (2) receipts agree with what was sent
	for _, src := range verifkit.SortedKeys(rc) {
		x := rc[src]
		want := ""
		if fc, ok := r.foreign[src]; ok {
			want = c27SHA(fc)
		} else if f, ok := r.files[src]; ok {
			want = f.SHA
		} else {
			r.fail("hub-unknown-file", "[%s] receipt for %q, which names no spoke file", where, src)
		}
		if x.SHA != want || x.HubPath != NamespacedPath(c27SpokeID, src) {
			r.fail("receipt-wrong", "[%s] receipt for %q says sha=%s hub_path=%s; spoke file sha=%s", where, src, x.SHA, x.HubPath, want)
		}
	}
	// (3) ledger rows
	for _, p := range verifkit.SortedKeys(rows) {
		row := rows[p]
		f, ok := r.files[p]
		if !ok {
			r.fail("ledger-unknown-file", "[%s] ledger tracks %q, which is not a spoke file", where, p)
		}
		if f.Compacted {
			if row.State != string(StateSkipped) || row.Note != NoteCompactedOutput {
				r.fail("compacted-output-queued", "[%s] compacted output %q (all inputs delivered) is tracked as %s/%q, so it will be (or was) sent and its rows stored twice", where, p, row.State, row.Note)
			}
			continue
		}
		if row.SHA != f.SHA || row.Size != int64(len(f.Content)) {
			r.fail("ledger-wrong-digest", "[%s] ledger row %q has sha=%s size=%d; file has sha=%s size=%d", where, p, row.SHA, row.Size, f.SHA, len(f.Content))
		}
		switch SyncState(row.State) {
		case StateSynced:
			if _, conflicted := r.foreign[p]; conflicted {
				r.fail("synced-without-hub-copy", "[%s] %q is synced but the hub holds a colliding writer's different content at that path", where, p)
			}
			if !r.hubGone[p] && !r.hubHolds(p, hub, rc, f.SHA) {
				r.fail("synced-without-hub-copy", "[%s] %q is synced but the hub holds neither the file with sha %s nor a compacted receipt for it", where, p, f.SHA)
			}
		case StateSkipped:
			if row.Note != NoteOperatorDismissed && row.Note != NoteCompactedOutput && f.OnSpoke {
				r.fail("skipped-existing-file", "[%s] %q is skipped (%q) but the source file is still on the spoke and was never removed", where, p, row.Note)
			}
		case StatePending, StateInFlight:
			if r.hubHolds(p, hub, rc, f.SHA) {
				r.sawUnacked = true
			}
		}
	}
	// (4) transitions, as logged by the triggers
	trows, err := r.spokeDB.Query(`SELECT seq, op, path, old, new, old_note, new_note FROM c27_log WHERE seq > ? ORDER BY seq`, r.lastSeq)
	r.must(err, "read transition log")
	type tr struct {
		seq                               int64
		op, path, old, new, oldNote, note string
	}
	var ts []tr
	for trows.Next() {
		var x tr
		r.must(trows.Scan(&x.seq, &x.op, &x.path, &x.old, &x.new, &x.oldNote, &x.note), "scan log")
		ts = append(ts, x)
	}
	trows.Close()
	for _, x := range ts {
		r.lastSeq = x.seq
		switch x.op {
		case "I":
			if !(x.new == string(StatePending) || (x.new == string(StateSkipped) && x.note == NoteCompactedOutput)) {
				r.fail("transition", "[%s] row %q inserted in state %s/%q", where, x.path, x.new, x.note)
			}
			r.trans["new>"+x.new]++
		case "D":
			if !(r.allowDelete && x.old == string(StateSynced)) {
				r.fail("transition", "[%s] row %q deleted from state %s", where, x.path, x.old)
			}
			r.trans[x.old+">deleted"]++
		case "U":
			if x.old == x.new {
				continue
			}
			key := x.old + ">" + x.new
			if x.old == string(StateSkipped) && x.new == string(StatePending) && x.oldNote == NoteOperatorDismissed {
				key = "skipped>pending(d)"
			}
			if x.old == string(StateSynced) {
				r.fail("transition-synced-left", "[%s] %q left synced for %s", where, x.path, x.new)
			}
			if !c27Allowed[key] {
				r.fail("transition", "[%s] undocumented ledger transition %s for %q (note %q -> %q)", where, key, x.path, x.oldNote, x.note)
			}
			r.trans[key]++
		}
	}
}

// ---------------------------------------------------------------- actions

var c27Dirs = []string{
	"metrics/cpu/2026/08/07/14", "metrics/cpu/2026/08/07/14", "metrics/cpu/2026/08/07/15",
	"metrics/mem/2026/08/08/09", "logs/app/2026/08/07/14", "metrics", "",
}

func (r *c27Rig) addFile(t *rapid.T) {
	r.counter++
	dir := rapid.SampledFrom(c27Dirs).Draw(t, "dir")
	name := fmt.Sprintf("f_%03d.parquet", r.counter)
	if parts := strings.Split(dir, "/"); len(parts) >= 2 {
		name = fmt.Sprintf("%s_%03d.parquet", parts[1], r.counter)
	}
	p := path.Join(dir, name)
	var content []byte
	if len(r.order) > 0 && rapid.IntRange(0, 9).Draw(t, "dupContent") == 0 {
		content = append([]byte(nil), r.files[r.order[rapid.IntRange(0, len(r.order)-1).Draw(t, "dupOf")]].Content...)
	} else {
		var size int
		switch rapid.IntRange(0, 9).Draw(t, "sizeClass") {
		case 0, 1, 2, 3:
			size = rapid.IntRange(1, 16).Draw(t, "size")
		case 4, 5, 6, 7, 8:
			size = rapid.IntRange(17, 700).Draw(t, "size")
		default:
			size = rapid.IntRange(33000, 90000).Draw(t, "size") // spans several io.Copy buffers
		}
		content = make([]byte, size)
		rand.New(rand.NewSource(int64(rapid.Uint32().Draw(t, "contentSeed")))).Read(content)
	}
	r.must(r.spokeBE.Write(context.Background(), p, content), "write spoke file")
	r.mu.Lock()
	r.files[p] = &c27File{Path: p, Content: content, SHA: c27SHA(content), OnSpoke: true}
	r.order = append(r.order, p)
	r.mu.Unlock()
	r.note("addFile %s size=%d sha=%s", p, len(content), c27SHA(content)[:8])
}

var c27PutKinds = []string{"dropBefore", "dropAfter", "dropAfter", "dropAfter", "short", "short", "shortLost", "corrupt", "corruptShort", "corruptShort",
	"backpressure", "invalid", "hubFail", "hubFailMid", "crashAfter", "crashAfter", "crashBefore", "sweepBefore", "foreignBefore",
	"ctxEndBefore", "ctxEndAfter", "ledgerErrAfter"}

// run performs one Agent.Run under a drawn fault plan.
func (r *c27Rig) run(t *rapid.T, faults bool) {
	rows := r.ledgerRows()
	plan := []string{}
	r.tr.mu.Lock()
	r.tr.put = map[string]c27PutFault{}
	r.tr.rec = nil
	r.tr.recByPath = map[string]c27RecFault{}
	r.tr.mu.Unlock()
	crashAt := 0
	if faults {
		for _, p := range r.order {
			f := r.files[p]
			if f.Compacted {
				continue
			}
			if row, ok := rows[p]; ok && row.State != string(StatePending) && row.State != string(StateInFlight) {
				continue
			}
			if rapid.IntRange(0, 99).Draw(t, "faultThisPut") >= 60 {
				continue
			}
			pf := c27PutFault{Kind: rapid.SampledFrom(c27PutKinds).Draw(t, "putFault"),
				K: int64(rapid.IntRange(0, 1<<20).Draw(t, "cut")), I: int64(rapid.IntRange(0, 1<<20).Draw(t, "flip"))}
			r.tr.put[p] = pf
			plan = append(plan, fmt.Sprintf("%s:%s(k=%d,i=%d)", p, pf.Kind, pf.K, pf.I))
		}
		for i, n := 0, rapid.SampledFrom([]int{0, 0, 0, 1, 1, 2}).Draw(t, "nRecFaults"); i < n; i++ {
			rf := c27RecFault{Kind: rapid.SampledFrom([]string{"dropBefore", "dropAfter", "tooLarge", "tooLarge", "crashAfter", "foreign"}).Draw(t, "recFault"),
				K: rapid.IntRange(0, 3).Draw(t, "recK")}
			if rf.Kind == "foreign" {
				if len(r.order) == 0 {
					continue
				}
				rf.Path = r.order[rapid.IntRange(0, len(r.order)-1).Draw(t, "recForeignPath")]
				if r.files[rf.Path].Compacted {
					continue
				}
			}
			r.tr.rec = append(r.tr.rec, rf)
			plan = append(plan, fmt.Sprintf("reconcile#%d:%s(k=%d,%s)", i, rf.Kind, rf.K, rf.Path))
		}
		if rapid.IntRange(0, 99).Draw(t, "crashAtWrite?") < 25 {
			crashAt = rapid.IntRange(1, 14).Draw(t, "crashAtWrite")
			plan = append(plan, fmt.Sprintf("crash-at-ledger-write#%d", crashAt))
		}
		if len(plan) > 0 {
			r.faulted = true
		}
	}
	r.exec(plan, crashAt, faults)
}

// exec performs one Agent.Run under whatever fault plan is installed in the transport.
func (r *c27Rig) exec(plan []string, crashAt int, faults bool) {
	r.gate.arm(crashAt)
	ctx, cancel := context.WithCancel(context.Background())
	r.mu.Lock()
	r.passCancel = cancel
	r.mu.Unlock()
	res, err := r.agent.Run(ctx)
	cancel()
	crashed := r.gate.isCrashed()
	r.gate.mu.Lock()
	r.gate.crashAt, r.gate.failN = 0, 0
	r.gate.mu.Unlock()
	verifkit.Class("run")
	summary := "err=" + fmt.Sprint(err)
	if res != nil {
		summary = fmt.Sprintf("discovered=%d recovered=%d present=%d sent=%d partial=%d failed=%d skipped=%d conflicts=%d err=%v",
			res.Discovered, res.Recovered, res.AlreadyPresent, res.Sent, res.Partial, res.Failed, res.Skipped, len(res.Conflicts), err)
	}
	r.note("run faults=[%s] -> %s crashed=%v", strings.Join(plan, " "), summary, crashed)
	if crashed {
		verifkit.Class("spoke-crash")
		r.check("after crash, before restart")
		r.restart()
		r.note("restart (after crash)")
	} else if !faults && err != nil {
		r.fail("fault-free-run-error", "Agent.Run failed with no fault injected: %v", err)
	}
	r.check("after run")
}

func (r *c27Rig) pick(t *rapid.T, label string, ok func(*c27File) bool) *c27File {
	var c []*c27File
	for _, p := range r.order {
		if f := r.files[p]; ok(f) {
			c = append(c, f)
		}
	}
	if len(c) == 0 {
		return nil
	}
	return c[rapid.IntRange(0, len(c)-1).Draw(t, label)]
}

func (r *c27Rig) vanishSpoke(t *rapid.T) {
	f := r.pick(t, "vanish", func(f *c27File) bool { return f.OnSpoke && !f.Compacted })
	if f == nil {
		return
	}
	r.must(r.spokeBE.Delete(context.Background(), f.Path), "delete spoke file")
	f.OnSpoke = false
	r.everVanished[f.Path] = true
	r.faulted = true
	r.note("vanishSpokeFile %s", f.Path)
}

// compactSpoke replays what compaction.Manager does on a spoke running with
// defer_compaction_until_synced: ask the REAL eligibility gate, consume only
// eligible inputs, write a tier-suffixed output, delete the inputs, tell the
// REAL compacted-output observer (or lose that call to a crash, which the
// discovery epoch rule must then repair).
func (r *c27Rig) compactSpoke(t *rapid.T) {
	ctx := context.Background()
	byDir := map[string][]string{}
	for _, p := range r.order {
		if f := r.files[p]; f.OnSpoke && strings.Count(p, "/") >= 6 {
			byDir[path.Dir(p)] = append(byDir[path.Dir(p)], p)
		}
	}
	var dirs []string
	for _, d := range verifkit.SortedKeys(byDir) {
		if len(byDir[d]) >= 2 {
			dirs = append(dirs, d)
		}
	}
	if len(dirs) == 0 {
		return
	}
	dir := dirs[rapid.IntRange(0, len(dirs)-1).Draw(t, "compactDir")]
	elig, err := NewCompactionEligibility(r.ledger, c27HubID, r.epoch, zerolog.Nop())(ctx, byDir[dir])
	r.must(err, "eligibility")
	var kept []string
	for _, p := range byDir[dir] {
		if elig[p] {
			kept = append(kept, p)
		}
	}
	if len(kept) < 2 {
		verifkit.Class("spoke-compaction-deferred")
		r.note("compactSpoke %s deferred (%d of %d eligible)", dir, len(kept), len(byDir[dir]))
		return
	}
	hub, rc, lrows := r.hubFiles(), r.receipts(), r.ledgerRows()
	var out []byte
	for _, p := range kept {
		f := r.files[p]
		// an operator-dismissed failure is documented as eligible: the operator renounced its delivery
		dismissed := lrows[p].State == string(StateSkipped) && lrows[p].Note == NoteOperatorDismissed
		if !f.Compacted && !dismissed && !r.hubGone[p] && !r.hubHolds(p, hub, rc, f.SHA) {
			r.fail("compacted-undelivered", "eligibility gate released %q for compaction but the hub does not hold it", p)
		}
		out = append(out, f.Content...)
	}
	r.counter++
	meas := strings.Split(dir, "/")[1]
	op := path.Join(dir, fmt.Sprintf("%s_20260807_140000_%d_b0_compacted.parquet", meas, int64(1786111200000000000)+int64(r.counter)))
	r.must(r.spokeBE.Write(ctx, op, out), "write compacted output")
	for _, p := range kept {
		r.must(r.spokeBE.Delete(ctx, p), "delete compaction input")
		r.files[p].OnSpoke = false
		r.everVanished[p] = true
	}
	r.mu.Lock()
	r.files[op] = &c27File{Path: op, Content: out, SHA: c27SHA(out), OnSpoke: true, Compacted: true}
	r.order = append(r.order, op)
	r.mu.Unlock()
	lost := rapid.IntRange(0, 3).Draw(t, "observerLostToCrash") == 0
	if !lost {
		NewCompactedOutputObserver(r.ledger, c27HubID, r.epoch, zerolog.Nop())(op)
	}
	verifkit.Class("spoke-compaction")
	r.note("compactSpoke %s inputs=%v output=%s observerLost=%v", dir, kept, op, lost)
}

func (r *c27Rig) hubHeldRaw() []string {
	hub, rc := r.hubFiles(), r.receipts()
	var c []string
	for _, src := range verifkit.SortedKeys(rc) {
		if _, isForeign := r.foreign[src]; isForeign || rc[src].Compacted {
			continue
		}
		if _, ok := hub[NamespacedPath(c27SpokeID, src)]; ok {
			c = append(c, src)
		}
	}
	return c
}

// compactHub replays hub compaction of a received namespace (#619): inputs are
// deleted, an output appears in the namespace, receipts are marked compacted.
func (r *c27Rig) compactHub(t *rapid.T) {
	ctx := context.Background()
	c := r.hubHeldRaw()
	if len(c) == 0 {
		return
	}
	n := rapid.IntRange(1, min(3, len(c))).Draw(t, "hubCompactN")
	start := rapid.IntRange(0, len(c)-n).Draw(t, "hubCompactStart")
	sel := c[start : start+n]
	r.counter++
	out := NamespacedPath(c27SpokeID, fmt.Sprintf("metrics/cpu/2026/08/07/hub_%d_compacted.parquet", r.counter))
	r.must(r.hubBE.LocalBackend.Write(ctx, out, []byte("hub compacted output")), "write hub output")
	r.hubOutputs[out] = true
	for _, src := range sel {
		r.must(r.hubBE.Delete(ctx, NamespacedPath(c27SpokeID, src)), "delete hub input")
		r.hubCompacted[src] = true
	}
	r.must(r.index.MarkCompacted(ctx, c27SpokeID, sel), "mark compacted")
	r.faulted = true
	verifkit.Class("hub-compaction")
	r.note("compactHubFiles %v", sel)
}

func (r *c27Rig) vanishHub(t *rapid.T) {
	c := r.hubHeldRaw()
	if len(c) == 0 {
		return
	}
	r.vanishHubPath(c[rapid.IntRange(0, len(c)-1).Draw(t, "hubVanish")])
}

func (r *c27Rig) vanishHubPath(src string) {
	rows := r.ledgerRows()
	r.must(r.hubBE.Delete(context.Background(), NamespacedPath(c27SpokeID, src)), "delete hub file")
	r.hubVanishCount[src]++
	if rows[src].State == string(StateSynced) {
		r.hubGone[src] = true
	}
	r.faulted = true
	r.note("vanishHubFile %s (ledger state %q)", src, rows[src].State)
}

// scripted installs an explicit fault plan and runs one pass.
func (r *c27Rig) scripted(put map[string]c27PutFault, recByPath map[string]c27RecFault, label string) {
	r.tr.mu.Lock()
	r.tr.put, r.tr.rec, r.tr.recByPath = put, nil, recByPath
	r.tr.mu.Unlock()
	r.faulted = true
	r.exec([]string{label}, 0, true)
}

// staleConfirm is a directed sub-history around ONE file, against the same
// long-lived Receiver/Reconciler/HubIndex: the upload commits but its ack is lost;
// the next pass's reconcile is answered by the hub ("present") but the answer is
// lost or the spoke dies before MarkSynced; the hub copy then disappears; a
// fault-free pass follows. Whatever the hub remembers from its earlier answer,
// the file may end synced only if the hub holds it again.
func (r *c27Rig) staleConfirm(t *rapid.T) {
	rows := r.ledgerRows()
	hub, rc := r.hubFiles(), r.receipts()
	f := r.pick(t, "staleConfirmTarget", func(f *c27File) bool {
		if !f.OnSpoke || f.Compacted {
			return false
		}
		if _, isForeign := r.foreign[f.Path]; isForeign {
			return false
		}
		if _, known := rc[f.Path]; known {
			return false
		}
		if _, onHub := hub[NamespacedPath(c27SpokeID, f.Path)]; onHub {
			return false
		}
		row, tracked := rows[f.Path]
		return !tracked || (row.State == string(StatePending) && row.BytesSent == 0)
	})
	if f == nil {
		r.addFile(t)
		f = r.files[r.order[len(r.order)-1]]
	}
	verifkit.Class("directed:stale-confirm")
	r.note("directed staleConfirm on %s", f.Path)
	r.scripted(map[string]c27PutFault{f.Path: {Kind: "dropAfter"}}, nil, f.Path+":dropAfter")
	if b, ok := r.hubFiles()[NamespacedPath(c27SpokeID, f.Path)]; !ok || c27SHA(b) != f.SHA {
		return // the upload did not commit (attempt cap, earlier state): nothing to direct
	}
	kind := rapid.SampledFrom([]string{"dropAfter", "dropAfter", "crashAfter"}).Draw(t, "staleConfirmLoss")
	r.scripted(nil, map[string]c27RecFault{f.Path: {Kind: kind}}, "reconcile-with:"+f.Path+":"+kind)
	if rows = r.ledgerRows(); rows[f.Path].State != string(StatePending) {
		return
	}
	if rapid.IntRange(0, 9).Draw(t, "staleConfirmVanish") < 8 {
		r.vanishHubPath(f.Path)
	}
	r.run(t, false)
}

// freshTarget returns a file the hub knows nothing about and the ledger has not
// started on (or adds one of at least minSize bytes).
func (r *c27Rig) freshTarget(t *rapid.T, label string, minSize int) *c27File {
	rows := r.ledgerRows()
	hub, rc := r.hubFiles(), r.receipts()
	f := r.pick(t, label, func(f *c27File) bool {
		if !f.OnSpoke || f.Compacted || len(f.Content) < minSize {
			return false
		}
		if _, isForeign := r.foreign[f.Path]; isForeign {
			return false
		}
		if _, known := rc[f.Path]; known {
			return false
		}
		if _, onHub := hub[NamespacedPath(c27SpokeID, f.Path)]; onHub {
			return false
		}
		row, tracked := rows[f.Path]
		return !tracked || (row.State == string(StatePending) && row.BytesSent == 0)
	})
	for tries := 0; f == nil && tries < 8; tries++ {
		r.addFile(t)
		if c := r.files[r.order[len(r.order)-1]]; len(c.Content) >= minSize {
			f = c
		}
	}
	return f
}

// requeueIfFailed is the operator's requeue (keeps bytes_sent) for a directed
// sub-history whose file ran into the attempt cap half-way.
func (r *c27Rig) requeueIfFailed(p string) {
	if r.ledgerRows()[p].State == string(StateFailed) {
		n, err := r.agent.RequeueFailed(context.Background(), p)
		r.must(err, "requeue")
		r.note("requeueFailed %s -> %d", p, n)
	}
}

// resumeSplice: repeated short bodies on ONE file with the partial answer
// alternately delivered and lost, so the hub's staged prefix runs AHEAD of the
// spoke's checkpoint (offset < staged < size), then clean passes from the
// spoke's older offset.
func (r *c27Rig) resumeSplice(t *rapid.T) {
	f := r.freshTarget(t, "spliceTarget", 6)
	if f == nil {
		return
	}
	size := int64(len(f.Content))
	n1 := int64(rapid.IntRange(1, int(size)-3).Draw(t, "spliceN1"))
	grow := int64(rapid.IntRange(1, int(size-n1)-1).Draw(t, "spliceGrow"))
	verifkit.Class("directed:resume-splice")
	r.note("directed resumeSplice on %s size=%d n1=%d n2=%d", f.Path, size, n1, n1+grow)
	// cut() = K % remaining: remaining is size at offset 0, size-n1 on the resume
	r.scripted(map[string]c27PutFault{f.Path: {Kind: "short", K: n1}}, nil, fmt.Sprintf("%s:short(%d) answer delivered", f.Path, n1))
	r.requeueIfFailed(f.Path)
	if row := r.ledgerRows()[f.Path]; row.State != string(StatePending) || row.BytesSent != n1 {
		return
	}
	r.scripted(map[string]c27PutFault{f.Path: {Kind: "shortLost", K: grow}}, nil, fmt.Sprintf("%s:short(+%d) answer lost", f.Path, grow))
	r.requeueIfFailed(f.Path)
	for i := 0; i < 2; i++ {
		r.run(t, false)
		r.requeueIfFailed(f.Path)
	}
}

// strandInFlight leaves a row in_flight WITHOUT a process restart: the pass
// context ends mid-transfer (so the follow-up ledger write fails on the dead
// context), or the ledger write after the hub's answer fails transiently. The
// SAME Agent object then runs further passes.
func (r *c27Rig) strandInFlight(t *rapid.T) {
	f := r.freshTarget(t, "strandTarget", 1)
	if f == nil {
		return
	}
	kind := rapid.SampledFrom([]string{"ctxEndAfter", "ctxEndAfter", "ctxEndBefore", "ledgerErrAfter"}).Draw(t, "strandKind")
	verifkit.Class("directed:strand-in-flight")
	r.note("directed strandInFlight on %s via %s", f.Path, kind)
	r.scripted(map[string]c27PutFault{f.Path: {Kind: kind}}, nil, f.Path+":"+kind)
	if r.ledgerRows()[f.Path].State == string(StateInFlight) {
		verifkit.Class("row-stranded-in-flight-without-restart")
	}
	if rapid.Bool().Draw(t, "strandFollowUpPass") {
		r.run(t, false)
	}
}

// staleBatch generalises staleConfirm to 2-4 files of ONE reconcile batch: their
// uploads commit with the acks lost, several hub copies then disappear together
// (retention / tiering / rm over the namespace), and a clean pass reconciles them
// side by side.
func (r *c27Rig) staleBatch(t *rapid.T) {
	n := rapid.IntRange(2, 4).Draw(t, "staleBatchN")
	var targets []*c27File
	put := map[string]c27PutFault{}
	for i := 0; i < n; i++ {
		r.addFile(t)
		f := r.files[r.order[len(r.order)-1]]
		targets = append(targets, f)
		put[f.Path] = c27PutFault{Kind: "dropAfter"}
	}
	verifkit.Class("directed:stale-batch")
	r.note("directed staleBatch on %d files", n)
	r.scripted(put, nil, "dropAfter on each new file")
	hub, rows := r.hubFiles(), r.ledgerRows()
	vanished := 0
	for i, f := range targets {
		b, ok := hub[NamespacedPath(c27SpokeID, f.Path)]
		if !ok || c27SHA(b) != f.SHA || rows[f.Path].State != string(StatePending) {
			continue
		}
		// usually all of them; sometimes one survivor in between
		if i > 0 && rapid.IntRange(0, 5).Draw(t, "staleBatchKeep") == 0 {
			continue
		}
		r.vanishHubPath(f.Path)
		vanished++
	}
	if vanished >= 2 {
		verifkit.Class("batch-with-2+-stale-receipts")
	}
	r.run(t, false)
}

func (r *c27Rig) pruneSynced() {
	_, err := r.spokeDB.Exec(`UPDATE sync_ledger SET synced_at = ? WHERE state = 'synced'`, time.Now().UTC().AddDate(0, 0, -30))
	r.must(err, "age synced rows")
	r.check("before prune")
	r.allowDelete = true
	n, err := r.ledger.PruneSynced(context.Background(), 1)
	r.must(err, "prune")
	r.check("after prune")
	r.allowDelete = false
	r.faulted = true
	r.note("pruneSynced removed %d rows", n)
}

// ---------------------------------------------------------------- the property

func c27History(t *rapid.T) {
	r := c27NewRig(t)
	defer r.close()
	steps := rapid.IntRange(4, verifkit.Scale(14, 20)).Draw(t, "steps")
	for i := 0; i < steps; i++ {
		act := rapid.SampledFrom([]string{"add", "add", "add", "run", "run", "run", "run", "run", "vanishSpoke", "compactSpoke", "compactSpoke",
			"compactHub", "vanishHub", "sweepStaging", "foreign", "requeue", "dismiss", "restart", "prune", "staleConfirm", "staleConfirm", "resumeSplice", "resumeSplice", "strandInFlight", "strandInFlight", "staleBatch", "staleBatch", "transferConflict"}).Draw(t, "action")
		switch act {
		case "add":
			for j, n := 0, rapid.IntRange(1, 3).Draw(t, "nFiles"); j < n; j++ {
				r.addFile(t)
			}
		case "run":
			r.run(t, rapid.IntRange(0, 9).Draw(t, "withFaults") < 8)
		case "vanishSpoke":
			r.vanishSpoke(t)
		case "compactSpoke":
			r.compactSpoke(t)
		case "compactHub":
			r.compactHub(t)
		case "vanishHub":
			if rapid.Bool().Draw(t, "reallyVanishHub") {
				r.vanishHub(t)
			}
		case "sweepStaging":
			n, err := r.recv.SweepStaging(context.Background(), time.Second, time.Now().Add(time.Hour))
			r.must(err, "sweep staging")
			r.note("sweepHubStaging removed %d", n)
		case "foreign":
			indexed := rapid.IntRange(0, 2).Draw(t, "foreignIndexed") > 0
			if f := r.pick(t, "foreignPath", func(f *c27File) bool { return !f.Compacted }); f != nil && r.seedForeignMode(f.Path, indexed) {
				r.faulted = true
				r.note("foreignWriterCommits %s indexed=%v", f.Path, indexed)
			}
		case "requeue":
			n, err := r.agent.RequeueFailed(context.Background(), "")
			r.must(err, "requeue")
			r.note("requeueFailed -> %d", n)
		case "dismiss":
			n, err := r.agent.DismissFailed(context.Background(), "")
			r.must(err, "dismiss")
			r.note("dismissFailed -> %d", n)
		case "restart":
			r.restart()
			r.note("restart (clean)")
		case "prune":
			r.pruneSynced()
		case "staleConfirm":
			r.staleConfirm(t)
		case "resumeSplice":
			r.resumeSplice(t)
		case "strandInFlight":
			r.strandInFlight(t)
		case "staleBatch":
			r.staleBatch(t)
		case "transferConflict":
			// a conflict the hub can only discover DURING the transfer: different bytes sit
			// at the path, the receipt index knows nothing about them
			if f := r.freshTarget(t, "transferConflictTarget", 1); f != nil && r.seedForeignMode(f.Path, false) {
				r.faulted = true
				verifkit.Class("directed:transfer-time-conflict")
				r.note("directed transferConflict on %s (un-indexed foreign file at the hub path)", f.Path)
				r.run(t, false)
			}
		}
		r.check("after " + act)
	}

	// terminal phase: faults stop. Every pass claims each pending row once
	// (attempts+1), so max_attempts+1 fault-free passes bound the drain.
	limit := r.maxAttempts
	if limit <= 0 {
		limit = DefaultMaxAttempts
	}
	for i := 0; i < limit+2; i++ {
		r.run(t, false)
		open := 0
		for _, row := range r.ledgerRows() {
			if s := SyncState(row.State); s != StateSynced && s != StateSkipped && s != StateFailed {
				open++
			}
		}
		if open == 0 && i >= 1 {
			break
		}
	}
	rows := r.ledgerRows()
	for _, p := range r.order {
		f := r.files[p]
		row, tracked := rows[p]
		if !tracked {
			if f.OnSpoke {
				r.fail("terminal-undiscovered", "after faults stopped, spoke file %q is still not in the ledger", p)
			}
			continue
		}
		if s := SyncState(row.State); s != StateSynced && s != StateSkipped && s != StateFailed {
			r.fail("terminal-state", "after faults stopped and %d fault-free passes, %q is still %s (attempts=%d bytes_sent=%d note=%q)", limit+2, p, row.State, row.Attempts, row.BytesSent, row.Note)
		}
		if !r.faulted && !f.Compacted && row.State != string(StateSynced) {
			r.fail("fault-free-not-delivered", "history without any fault: %q ended %s (%q)", p, row.State, row.Note)
		}
	}

	verifkit.Eval()
	for k, n := range r.trans {
		verifkit.ClassN("transition:"+k, n)
	}
	if r.sawUnacked {
		verifkit.Class("history:unacked-commit")
		verifkit.NonTrivial(strings.Join(r.history, "\n"))
		if verifkit.SampleCount() < 3 {
			verifkit.Sample(map[string]any{"history": r.history})
		}
	}
	if r.faulted {
		verifkit.Class("history:faulted")
	} else {
		verifkit.Class("history:fault-free")
	}
}

func TestVerifC27_History(t *testing.T) {
	rapid.Check(t, c27History)
}
