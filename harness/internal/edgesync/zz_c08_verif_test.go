//go:build verif

package edgesync

// C08 (derived keys): keys that reach the local backend through the cluster
// manifest validator (raft.ValidateManifestPath) and through the edge-sync
// receiver (validateSpokeID / validateSyncPath -> NamespacedPath / stagingPathFor)
// must stay inside the configured root. Oracle: before/after snapshot of the
// scratch tree around the root (verifkit/jail), not a re-implementation of any
// validator.

import (
	"bytes"
	"context"
	"crypto/sha256"
	"encoding/hex"
	"errors"
	"fmt"
	"os"
	"path/filepath"
	"strings"
	"testing"

	"github.com/basekick-labs/arc/internal/cluster/raft"
	"github.com/basekick-labs/arc/internal/storage"
	"github.com/basekick-labs/arc/internal/verifkit"
	"github.com/basekick-labs/arc/internal/verifkit/jail"
	"github.com/rs/zerolog"
	"pgregory.net/rapid"
)

const kfC08RootPartDerived = "C08-root-key-part-sibling"

type c08FailAfter struct {
	data []byte
	n    int
}

func (r *c08FailAfter) Read(p []byte) (int, error) {
	if r.n <= 0 {
		return 0, errors.New("verif: injected transport error")
	}
	k := copy(p, r.data[:r.n])
	r.data, r.n = r.data[k:], r.n-k
	return k, nil
}

type c08Plain struct{ r *bytes.Reader }

func (p c08Plain) Read(b []byte) (int, error) { return p.r.Read(b) }

func c08Reset(t *rapid.T, j *jail.Jail) (jail.Snapshot, *storage.LocalBackend) {
	snap, err := j.Reset(rapid.Bool().Draw(t, "rootPartDecoy"))
	if err != nil {
		t.Fatalf("setup: %v", err)
	}
	b, err := storage.NewLocalBackend(j.Root, zerolog.Nop())
	if err != nil {
		t.Fatalf("setup: %v", err)
	}
	return snap, b
}

// Manifest entries: the peer puller hands entry.Path to StatFile / ReadToAt /
// WriteReader / AppendReader / Delete of the local backend.
func TestVerifC08_ManifestPaths(t *testing.T) {
	ctx := context.Background()
	j, err := jail.New(t.TempDir(), false)
	if err != nil {
		t.Fatalf("setup: %v", err)
	}
	rapid.Check(t, func(t *rapid.T) {
		snap, b := c08Reset(t, j)
		for i := 0; i < 4; i++ {
			key := jail.GenKey(t, j.DecoyPaths())
			if err := raft.ValidateManifestPath(key); err != nil {
				verifkit.Class("manifest-rejected")
				continue
			}
			verifkit.Class("manifest-accepted")
			op := rapid.SampledFrom([]string{"WriteReader", "AppendAfterPartial", "Write", "Delete", "StatFile", "ReadToAt", "GetFullPath"}).Draw(t, "op")
			if (op == "WriteReader" || op == "AppendAfterPartial") && verifkit.Excluded(kfC08RootPartDerived) && b.GetFullPath(key) == j.Root {
				verifkit.CountExcluded(kfC08RootPartDerived)
				continue
			}
			verifkit.Eval()
			if jail.IsHostile(key) {
				verifkit.Class("manifest-accepted-hostile")
				verifkit.NonTrivial("manifest\x00" + op + "\x00" + key)
				if verifkit.SampleCount() < 2 && len(key) < 60 {
					verifkit.Sample(map[string]string{"source": "ValidateManifestPath-accepted", "op": op, "key": fmt.Sprintf("%q", key)})
				}
			}
			data := []byte("manifest-payload-" + rapid.StringMatching(`[a-z]{0,12}`).Draw(t, "data"))
			var opErr error
			switch op {
			case "WriteReader":
				opErr = b.WriteReader(ctx, key, c08Plain{bytes.NewReader(data)}, int64(len(data)))
			case "AppendAfterPartial":
				cut := rapid.IntRange(0, len(data)).Draw(t, "cut")
				_ = b.WriteReader(ctx, key, &c08FailAfter{data: data, n: cut}, int64(len(data)))
				opErr = b.AppendReader(ctx, key, c08Plain{bytes.NewReader(data[cut:])}, int64(len(data)-cut))
			case "Write":
				opErr = b.Write(ctx, key, data)
			case "Delete":
				opErr = b.Delete(ctx, key)
			case "StatFile":
				var sz int64
				sz, opErr = b.StatFile(ctx, key)
				if sz == jail.CanarySize {
					t.Fatalf("VERIF-FAIL class=C08/stat-outside-root manifest key=%q reports a decoy's size", key)
				}
			case "ReadToAt":
				var buf bytes.Buffer
				opErr = b.ReadToAt(ctx, key, &buf, 0)
				if bytes.Contains(buf.Bytes(), []byte(jail.Canary)) {
					t.Fatalf("VERIF-FAIL class=C08/read-outside-root manifest key=%q returned decoy bytes", key)
				}
			case "GetFullPath":
				if p := b.GetFullPath(key); p != "" && !j.Inside(p) {
					t.Fatalf("VERIF-FAIL class=C08/fullpath-outside-root manifest key=%q resolved to %q", key, p)
				}
			}
			var viol string
			snap, _, viol = j.CheckConfined(snap)
			if viol != "" {
				t.Fatalf("VERIF-FAIL class=C08/escape-manifest-%s key=%q (accepted by ValidateManifestPath) err=%v: %s", op, key, opErr, viol)
			}
		}
	})
}

var c08SpokeTokens = []string{"spoke1", "edge-a", "a..b", "a.b", "x\\y", "a/b", "..", ".", ".hidden", "", "a\x00b", "．．", "‥", "%2e%2e",
	"root", "rootx", ".sync-staging", "~", "a b", "é", strings.Repeat("s", 300), "spoke1.", "a...b", "C:", "con"}

// Edge-sync uploads: the whole Receive path (staging, append, promote) with
// hostile spoke ids and source paths.
func TestVerifC08_EdgeSyncPaths(t *testing.T) {
	ctx := context.Background()
	j, err := jail.New(t.TempDir(), false)
	if err != nil {
		t.Fatalf("setup: %v", err)
	}
	rapid.Check(t, func(t *rapid.T) {
		snap, b := c08Reset(t, j)
		rcv, err := NewReceiver(ReceiverConfig{Backend: b, Logger: zerolog.Nop()})
		if err != nil {
			t.Fatalf("setup: %v", err)
		}
		for i := 0; i < 3; i++ {
			spoke := rapid.SampledFrom(c08SpokeTokens).Draw(t, "spoke")
			if rapid.IntRange(0, 5).Draw(t, "rawSpoke") == 0 {
				spoke = rapid.StringN(0, 12, 40).Draw(t, "spokeRaw")
			}
			src := jail.GenKey(t, j.DecoyPaths())
			if rapid.Bool().Draw(t, "parquetSuffix") {
				src += ".parquet"
			}
			body := []byte("edge-payload-" + rapid.StringMatching(`[a-z]{0,12}`).Draw(t, "data"))
			sum := sha256.Sum256(body)
			sha := hex.EncodeToString(sum[:])
			size := int64(len(body))
			accepted := validateSpokeID(spoke) == nil && validateSyncPath(src) == nil
			verifkit.Eval()
			if accepted {
				verifkit.Class("edgesync-accepted")
				if jail.IsHostile(src) || jail.IsHostile(spoke) {
					verifkit.Class("edgesync-accepted-hostile")
					verifkit.NonTrivial("edgesync\x00" + spoke + "\x00" + src)
					if verifkit.SampleCount() < 4 && len(src) < 60 {
						verifkit.Sample(map[string]string{"source": "edge-sync Receive (validators accepted)", "spoke": fmt.Sprintf("%q", spoke), "path": fmt.Sprintf("%q", src)})
					}
				}
			} else {
				verifkit.Class("edgesync-rejected")
				// a rejected upload is still a case: it must touch nothing at all
				verifkit.NonTrivial("edgesync-rejected\x00" + spoke + "\x00" + src)
			}
			// sometimes deliver the body in two requests (partial, then resume at the reported offset)
			var res *PutResult
			var rerr error
			if rapid.Bool().Draw(t, "twoPhase") && len(body) > 1 {
				cut := rapid.IntRange(1, len(body)-1).Draw(t, "cut")
				res, rerr = rcv.Receive(ctx, spoke, src, sha, size, 0, bytes.NewReader(body[:cut]))
				var viol string
				snap, _, viol = j.CheckConfined(snap)
				if viol != "" {
					t.Fatalf("VERIF-FAIL class=C08/escape-edgesync spoke=%q path=%q (partial upload) err=%v: %s", spoke, src, rerr, viol)
				}
				if rerr == nil && res != nil && res.Outcome == OutcomePartial && res.BytesAccepted > 0 && res.BytesAccepted <= size {
					verifkit.Class("edgesync-resumed")
					res, rerr = rcv.Receive(ctx, spoke, src, sha, size, res.BytesAccepted, bytes.NewReader(body[res.BytesAccepted:]))
				}
			} else {
				res, rerr = rcv.Receive(ctx, spoke, src, sha, size, 0, bytes.NewReader(body))
			}
			var changes []jail.Change
			var viol string
			snap, changes, viol = j.CheckConfined(snap)
			if viol != "" {
				t.Fatalf("VERIF-FAIL class=C08/escape-edgesync spoke=%q path=%q err=%v: %s", spoke, src, rerr, viol)
			}
			if !accepted && (rerr == nil || len(changes) > 0) {
				t.Fatalf("VERIF-FAIL class=C08/edgesync-rejected-but-touched spoke=%q path=%q err=%v changes=%v", spoke, src, rerr, changes)
			}
			if accepted && rerr == nil && res != nil && res.Outcome == OutcomeCommitted {
				verifkit.Class("edgesync-committed")
				// the namespaced key resolves inside the root (backend's own resolution as witness)
				fp := b.GetFullPath(NamespacedPath(spoke, src))
				if fp == "" || !j.Inside(fp) {
					t.Fatalf("VERIF-FAIL class=C08/edgesync-final-outside-root spoke=%q path=%q resolves to %q", spoke, src, fp)
				}
				got, err := os.ReadFile(fp)
				if err != nil || !bytes.Equal(got, body) {
					t.Fatalf("VERIF-FAIL class=C08/edgesync-committed-not-at-resolved-path spoke=%q path=%q file %q: %v", spoke, src, fp, err)
				}
				if strings.Contains(spoke, "..") {
					// LocalBackend rewrites ".." to "_": the spoke's directory is aliased (a namespace
					// matter outside C08's statement; still inside the root). Counted, not judged.
					verifkit.Class("edgesync-spoke-dotdot-aliased")
				} else {
					ns := filepath.Join(j.Root, spoke) + string(filepath.Separator)
					stg := filepath.Join(j.Root, StagingPrefix, spoke) + string(filepath.Separator)
					for _, c := range changes {
						abs := filepath.Join(j.Base, c.Path)
						if !strings.HasPrefix(abs+string(filepath.Separator), ns) && !strings.HasPrefix(abs+string(filepath.Separator), stg) &&
							abs != filepath.Join(j.Root, StagingPrefix) {
							t.Fatalf("VERIF-FAIL class=C08/edgesync-outside-spoke-namespace spoke=%q path=%q touched %q (namespace %q)", spoke, src, abs, ns)
						}
					}
				}
			}
		}
	})
}
