//go:build verif

package auth

// C20 - Permission decisions always reflect the current RBAC state.
//
// Stateful property test: a bounded history of token / organization / team /
// role / measurement-permission / membership mutations (delivered either
// directly through the managers' OSS SQLite path or through the cluster path:
// proposer -> fake FSM -> Apply* appliers), interleaved with permission
// checks. After every step the decisions of CheckPermission and
// CheckPermissionsBatch over a subset of a fixed probe set are compared with
// an independent evaluator that reads the SQLite tables directly.

import (
	"context"
	"crypto/sha256"
	"database/sql"
	"encoding/hex"
	"encoding/json"
	"errors"
	"fmt"
	"os"
	"path/filepath"
	"regexp"
	"strings"
	"testing"
	"time"

	"github.com/basekick-labs/arc/internal/license"
	"github.com/basekick-labs/arc/internal/verifkit"
	"github.com/rs/zerolog"
	"pgregory.net/rapid"
)

// Known-finding ids (findings/C20.json). Each has a generator exclusion that
// is on only while the finding is listed as open.
const (
	kfC20OrgDelete  = "C20-oss-delete-org-stale"
	kfC20TokenPerms = "C20-token-perms-stale"
)

var (
	c20DBs          = []string{"prod_us", "prod", "production", "staging", "cpu_metrics"}
	c20Meas         = []string{"", "cpu", "cpu_metrics", "prod_m"}
	c20Perms        = []string{"read", "write", "delete", "admin"}
	c20DBPatterns   = []string{"*", "prod_*", "*_metrics", "prod*", "staging"}
	c20MeasPatterns = []string{"*", "prod_*", "*_metrics", "cpu*", "cpu"}
)

const (
	c20NTok  = 3
	c20NOrg  = 2
	c20NTeam = 3
	c20NRole = 4
	c20NMP   = 4
)

// ---------------------------------------------------------------------------
// Fake FSM: what the cluster's Raft FSM does between a proposal and the
// Apply* callbacks (ID stamping, uniqueness / parent checks, partial-update
// merge). It never touches SQLite itself except to read; every write goes
// through the appliers under test.
// ---------------------------------------------------------------------------

type c20FSM struct {
	am     *AuthManager
	rm     *RBACManager
	idx    int64
	tokens map[int64]*ClusterTokenEntry
	// ids the FSM itself has stamped. Like the real FSM (whose maps are empty
	// for rows written before the node joined the cluster) it knows nothing
	// about pre-cluster local rows: uniqueness and parent checks only see
	// known ids, so a Create for a name that exists locally under another id
	// reaches the applier (upgrade seed / follower with pre-cluster rows).
	orgs, teams, roles, mps, mems map[int64]bool
}

func c20NewFSM(am *AuthManager, rm *RBACManager, base int64) *c20FSM {
	return &c20FSM{am: am, rm: rm, idx: base, tokens: map[int64]*ClusterTokenEntry{},
		orgs: map[int64]bool{}, teams: map[int64]bool{}, roles: map[int64]bool{}, mps: map[int64]bool{}, mems: map[int64]bool{}}
}

// knownRow: a row matching the query exists locally AND its id was stamped by the FSM.
func (f *c20FSM) knownRow(known map[int64]bool, q string, args ...any) bool {
	rows, err := f.am.db.Query(q, args...)
	if err != nil {
		return false
	}
	defer rows.Close()
	for rows.Next() {
		var id int64
		if rows.Scan(&id) == nil && known[id] {
			return true
		}
	}
	return false
}

func (f *c20FSM) IsLeader() bool { return true }

func (f *c20FSM) next() int64 { f.idx++; return f.idx }

func (f *c20FSM) exists(q string, args ...any) bool {
	var one int
	err := f.am.db.QueryRow(q, args...).Scan(&one)
	return err == nil
}

func c20Changed(fields []string) map[string]bool {
	m := map[string]bool{}
	for _, c := range fields {
		m[c] = true
	}
	return m
}

func (f *c20FSM) createToken(e ClusterTokenEntry) (int64, error) {
	for _, t := range f.tokens {
		if t.Name == e.Name {
			return 0, errors.New("token name already exists")
		}
	}
	e.ID = f.next()
	e.LSN = uint64(e.ID)
	if err := f.am.ApplyCreateToken(e); err != nil {
		return 0, err
	}
	cp := e
	f.tokens[e.ID] = &cp
	return e.ID, nil
}

func (f *c20FSM) Propose(ctx context.Context, cmdType uint8, payload []byte, timeout time.Duration) error {
	switch cmdType {
	case ProposalCommandCreateToken:
		var p struct {
			Token clusterTokenEntryWire `json:"token"`
		}
		if err := json.Unmarshal(payload, &p); err != nil {
			return err
		}
		_, err := f.createToken(ClusterTokenEntry{Name: p.Token.Name, Description: p.Token.Description,
			Permissions: p.Token.Permissions, TokenHash: p.Token.TokenHash, TokenPrefix: p.Token.TokenPrefix,
			CreatedAtUnixNano: p.Token.CreatedAtUnixNano, ExpiresAtUnixNano: p.Token.ExpiresAtUnixNano, Enabled: true})
		return err
	case ProposalCommandUpdateToken:
		var p struct {
			ID                int64    `json:"id"`
			Name              string   `json:"name,omitempty"`
			Description       string   `json:"description,omitempty"`
			Permissions       string   `json:"permissions,omitempty"`
			ExpiresAtUnixNano int64    `json:"expires_at_unix_nano,omitempty"`
			ChangedFields     []string `json:"changed_fields"`
		}
		if err := json.Unmarshal(payload, &p); err != nil {
			return err
		}
		f.next()
		e, ok := f.tokens[p.ID]
		if !ok {
			return nil // FSM drops an update of an unknown token
		}
		ch := c20Changed(p.ChangedFields)
		if ch["name"] {
			e.Name = p.Name
		}
		if ch["description"] {
			e.Description = p.Description
		}
		if ch["permissions"] {
			e.Permissions = p.Permissions
		}
		if ch["expires_at"] {
			e.ExpiresAtUnixNano = p.ExpiresAtUnixNano
		}
		return f.am.ApplyUpdateToken(*e)
	case ProposalCommandRevokeToken, ProposalCommandDeleteToken:
		var p struct {
			ID int64 `json:"id"`
		}
		if err := json.Unmarshal(payload, &p); err != nil {
			return err
		}
		f.next()
		e, ok := f.tokens[p.ID]
		if !ok {
			return nil
		}
		if cmdType == ProposalCommandRevokeToken {
			e.Enabled = false
			return f.am.ApplyRevokeToken(p.ID)
		}
		delete(f.tokens, p.ID)
		return f.am.ApplyDeleteToken(p.ID)
	case ProposalCommandRotateToken:
		var p struct {
			ID        int64  `json:"id"`
			NewHash   string `json:"new_hash"`
			NewPrefix string `json:"new_prefix"`
		}
		if err := json.Unmarshal(payload, &p); err != nil {
			return err
		}
		f.next()
		e, ok := f.tokens[p.ID]
		if !ok {
			return errors.New("token not found")
		}
		e.TokenHash, e.TokenPrefix = p.NewHash, p.NewPrefix
		return f.am.ApplyRotateToken(p.ID, p.NewHash, p.NewPrefix)

	case ProposalCommandCreateOrganization:
		var p createOrganizationPayloadWire
		if err := json.Unmarshal(payload, &p); err != nil {
			return err
		}
		if f.knownRow(f.orgs, `SELECT id FROM rbac_organizations WHERE name = ?`, p.Organization.Name) {
			return errors.New("organization name already exists")
		}
		id := f.next()
		f.orgs[id] = true
		return f.rm.ApplyCreateOrganization(ClusterOrganizationEntry{ID: id, Name: p.Organization.Name,
			Description: p.Organization.Description, CreatedAtUnixNano: p.Organization.CreatedAtUnixNano,
			UpdatedAtUnixNano: p.Organization.UpdatedAtUnixNano, Enabled: true, LSN: uint64(id)})
	case ProposalCommandUpdateOrganization:
		var p updateOrganizationPayloadWire
		if err := json.Unmarshal(payload, &p); err != nil {
			return err
		}
		id := f.next()
		ex, err := f.rm.GetOrganization(p.ID)
		if err != nil {
			return err
		}
		if ex == nil || !f.orgs[p.ID] {
			return fmt.Errorf("organization %d not found", p.ID)
		}
		e := ClusterOrganizationEntry{ID: p.ID, Name: ex.Name, Description: ex.Description,
			CreatedAtUnixNano: ex.CreatedAt.UnixNano(), UpdatedAtUnixNano: p.UpdatedAtUnixNano, Enabled: ex.Enabled, LSN: uint64(id)}
		ch := c20Changed(p.ChangedFields)
		if ch["name"] {
			if f.knownRow(f.orgs, `SELECT id FROM rbac_organizations WHERE name = ? AND id <> ?`, p.Name, p.ID) {
				return errors.New("organization name already exists")
			}
			e.Name = p.Name
		}
		if ch["description"] {
			e.Description = p.Description
		}
		if ch["enabled"] {
			e.Enabled = p.Enabled
		}
		return f.rm.ApplyUpdateOrganization(e)
	case ProposalCommandDeleteOrganization:
		var p deleteOrganizationPayloadWire
		if err := json.Unmarshal(payload, &p); err != nil {
			return err
		}
		f.next()
		if !f.orgs[p.ID] {
			return nil // unknown to the FSM: idempotent no-op, no callback
		}
		delete(f.orgs, p.ID)
		return f.rm.ApplyDeleteOrganization(p.ID)

	case ProposalCommandCreateTeam:
		var p createTeamPayloadWire
		if err := json.Unmarshal(payload, &p); err != nil {
			return err
		}
		if !f.orgs[p.Team.OrganizationID] || !f.exists(`SELECT 1 FROM rbac_organizations WHERE id = ?`, p.Team.OrganizationID) {
			return fmt.Errorf("organization %d not found", p.Team.OrganizationID)
		}
		if f.knownRow(f.teams, `SELECT id FROM rbac_teams WHERE organization_id = ? AND name = ?`, p.Team.OrganizationID, p.Team.Name) {
			return errors.New("team name already exists in this organization")
		}
		id := f.next()
		f.teams[id] = true
		return f.rm.ApplyCreateTeam(ClusterTeamEntry{ID: id, OrganizationID: p.Team.OrganizationID, Name: p.Team.Name,
			Description: p.Team.Description, CreatedAtUnixNano: p.Team.CreatedAtUnixNano,
			UpdatedAtUnixNano: p.Team.UpdatedAtUnixNano, Enabled: true, LSN: uint64(id)})
	case ProposalCommandUpdateTeam:
		var p updateTeamPayloadWire
		if err := json.Unmarshal(payload, &p); err != nil {
			return err
		}
		id := f.next()
		ex, err := f.rm.GetTeam(p.ID)
		if err != nil {
			return err
		}
		if ex == nil || !f.teams[p.ID] {
			return fmt.Errorf("team %d not found", p.ID)
		}
		e := ClusterTeamEntry{ID: p.ID, OrganizationID: ex.OrganizationID, Name: ex.Name, Description: ex.Description,
			CreatedAtUnixNano: ex.CreatedAt.UnixNano(), UpdatedAtUnixNano: p.UpdatedAtUnixNano, Enabled: ex.Enabled, LSN: uint64(id)}
		ch := c20Changed(p.ChangedFields)
		if ch["name"] {
			e.Name = p.Name
		}
		if ch["description"] {
			e.Description = p.Description
		}
		if ch["enabled"] {
			e.Enabled = p.Enabled
		}
		return f.rm.ApplyUpdateTeam(e)
	case ProposalCommandDeleteTeam:
		var p deleteTeamPayloadWire
		if err := json.Unmarshal(payload, &p); err != nil {
			return err
		}
		f.next()
		if !f.teams[p.ID] {
			return nil
		}
		delete(f.teams, p.ID)
		return f.rm.ApplyDeleteTeam(p.ID)

	case ProposalCommandCreateRole:
		var p createRolePayloadWire
		if err := json.Unmarshal(payload, &p); err != nil {
			return err
		}
		if !f.teams[p.Role.TeamID] || !f.exists(`SELECT 1 FROM rbac_teams WHERE id = ?`, p.Role.TeamID) {
			return fmt.Errorf("team %d not found", p.Role.TeamID)
		}
		id := f.next()
		f.roles[id] = true
		return f.rm.ApplyCreateRole(ClusterRoleEntry{ID: id, TeamID: p.Role.TeamID, DatabasePattern: p.Role.DatabasePattern,
			Permissions: p.Role.Permissions, CreatedAtUnixNano: p.Role.CreatedAtUnixNano, LSN: uint64(id)})
	case ProposalCommandUpdateRole:
		var p updateRolePayloadWire
		if err := json.Unmarshal(payload, &p); err != nil {
			return err
		}
		id := f.next()
		ex, err := f.rm.GetRole(p.ID)
		if err != nil {
			return err
		}
		if ex == nil || !f.roles[p.ID] {
			return fmt.Errorf("role %d not found", p.ID)
		}
		e := ClusterRoleEntry{ID: p.ID, TeamID: ex.TeamID, DatabasePattern: ex.DatabasePattern,
			Permissions: strings.Join(ex.Permissions, ","), CreatedAtUnixNano: ex.CreatedAt.UnixNano(), LSN: uint64(id)}
		ch := c20Changed(p.ChangedFields)
		if ch["database_pattern"] {
			e.DatabasePattern = p.DatabasePattern
		}
		if ch["permissions"] {
			e.Permissions = p.Permissions
		}
		return f.rm.ApplyUpdateRole(e)
	case ProposalCommandDeleteRole:
		var p deleteRolePayloadWire
		if err := json.Unmarshal(payload, &p); err != nil {
			return err
		}
		f.next()
		if !f.roles[p.ID] {
			return nil
		}
		delete(f.roles, p.ID)
		return f.rm.ApplyDeleteRole(p.ID)

	case ProposalCommandCreateMeasurementPermission:
		var p createMeasurementPermissionPayloadWire
		if err := json.Unmarshal(payload, &p); err != nil {
			return err
		}
		mp := p.MeasurementPermission
		if !f.roles[mp.RoleID] || !f.exists(`SELECT 1 FROM rbac_roles WHERE id = ?`, mp.RoleID) {
			return fmt.Errorf("role %d not found", mp.RoleID)
		}
		id := f.next()
		f.mps[id] = true
		return f.rm.ApplyCreateMeasurementPermission(ClusterMeasurementPermissionEntry{ID: id, RoleID: mp.RoleID,
			MeasurementPattern: mp.MeasurementPattern, Permissions: mp.Permissions, CreatedAtUnixNano: mp.CreatedAtUnixNano, LSN: uint64(id)})
	case ProposalCommandDeleteMeasurementPermission:
		var p deleteMeasurementPermissionPayloadWire
		if err := json.Unmarshal(payload, &p); err != nil {
			return err
		}
		f.next()
		if !f.mps[p.ID] {
			return nil
		}
		delete(f.mps, p.ID)
		return f.rm.ApplyDeleteMeasurementPermission(p.ID)

	case ProposalCommandAddTokenToTeam:
		var p addTokenToTeamPayloadWire
		if err := json.Unmarshal(payload, &p); err != nil {
			return err
		}
		m := p.Membership
		if !f.teams[m.TeamID] || !f.exists(`SELECT 1 FROM rbac_teams WHERE id = ?`, m.TeamID) {
			return fmt.Errorf("team %d not found", m.TeamID)
		}
		if _, ok := f.tokens[m.TokenID]; !ok {
			return fmt.Errorf("token %d not found", m.TokenID)
		}
		if f.knownRow(f.mems, `SELECT id FROM rbac_token_memberships WHERE token_id = ? AND team_id = ?`, m.TokenID, m.TeamID) {
			return errors.New("token is already a member of this team")
		}
		id := f.next()
		f.mems[id] = true
		return f.rm.ApplyAddTokenToTeam(ClusterTokenMembershipEntry{ID: id, TokenID: m.TokenID, TeamID: m.TeamID,
			CreatedAtUnixNano: m.CreatedAtUnixNano, LSN: uint64(id)})
	case ProposalCommandRemoveTokenFromTeam:
		var p removeTokenFromTeamPayloadWire
		if err := json.Unmarshal(payload, &p); err != nil {
			return err
		}
		f.next()
		if !f.knownRow(f.mems, `SELECT id FROM rbac_token_memberships WHERE token_id = ? AND team_id = ?`, p.TokenID, p.TeamID) {
			return nil
		}
		return f.rm.ApplyRemoveTokenFromTeam(p.TokenID, p.TeamID)
	}
	return fmt.Errorf("c20FSM: unknown command type %d", cmdType)
}

// ---------------------------------------------------------------------------
// Independent evaluator. Written from the documented policy (rbac_manager.go
// comments on CheckPermission / checkRBACPermissionCached / matchPattern /
// containsPermission and middleware.go): it reads the tables with its own
// SQL, matches patterns with a generic '*' glob compiled to a regexp, and
// keeps nothing between calls.
// ---------------------------------------------------------------------------

type c20TokRow struct {
	perms   []string
	enabled bool
	expires *time.Time
}
type c20RoleRow struct {
	id, team int64
	pat      string
	perms    []string
}
type c20MPRow struct {
	role  int64
	pat   string
	perms []string
}
type c20State struct {
	tokens  map[int64]c20TokRow
	members map[int64][]int64 // token -> team ids
	teamOn  map[int64]bool
	roles   []c20RoleRow
	mps     []c20MPRow
}

func c20Split(s sql.NullString) []string {
	if !s.Valid || s.String == "" {
		return nil
	}
	return strings.Split(s.String, ",")
}

func c20Load(db *sql.DB) (*c20State, error) {
	st := &c20State{tokens: map[int64]c20TokRow{}, members: map[int64][]int64{}, teamOn: map[int64]bool{}}
	rows, err := db.Query(`SELECT id, permissions, enabled, expires_at FROM api_tokens`)
	if err != nil {
		return nil, err
	}
	for rows.Next() {
		var id int64
		var perms sql.NullString
		var en bool
		var exp sql.NullTime
		if err := rows.Scan(&id, &perms, &en, &exp); err != nil {
			rows.Close()
			return nil, err
		}
		r := c20TokRow{perms: c20Split(perms), enabled: en}
		if exp.Valid {
			e := exp.Time
			r.expires = &e
		}
		st.tokens[id] = r
	}
	rows.Close()
	rows, err = db.Query(`SELECT token_id, team_id FROM rbac_token_memberships ORDER BY id`)
	if err != nil {
		return nil, err
	}
	for rows.Next() {
		var tok, team int64
		if err := rows.Scan(&tok, &team); err != nil {
			rows.Close()
			return nil, err
		}
		st.members[tok] = append(st.members[tok], team)
	}
	rows.Close()
	rows, err = db.Query(`SELECT id, enabled FROM rbac_teams`)
	if err != nil {
		return nil, err
	}
	for rows.Next() {
		var id int64
		var en bool
		if err := rows.Scan(&id, &en); err != nil {
			rows.Close()
			return nil, err
		}
		st.teamOn[id] = en
	}
	rows.Close()
	rows, err = db.Query(`SELECT id, team_id, database_pattern, permissions FROM rbac_roles ORDER BY id`)
	if err != nil {
		return nil, err
	}
	for rows.Next() {
		var r c20RoleRow
		var perms sql.NullString
		if err := rows.Scan(&r.id, &r.team, &r.pat, &perms); err != nil {
			rows.Close()
			return nil, err
		}
		r.perms = c20Split(perms)
		st.roles = append(st.roles, r)
	}
	rows.Close()
	rows, err = db.Query(`SELECT role_id, measurement_pattern, permissions FROM rbac_measurement_permissions ORDER BY id`)
	if err != nil {
		return nil, err
	}
	for rows.Next() {
		var r c20MPRow
		var perms sql.NullString
		if err := rows.Scan(&r.role, &r.pat, &perms); err != nil {
			rows.Close()
			return nil, err
		}
		r.perms = c20Split(perms)
		st.mps = append(st.mps, r)
	}
	rows.Close()
	return st, nil
}

var c20GlobCache = map[string]*regexp.Regexp{}

var c20Sampled = map[string]bool{}

// c20Glob: '*' matches any (possibly empty) run of characters; everything
// else is literal. For the generated pattern universe this coincides with
// the four documented forms (*, prefix_*, *_suffix, prefix*) and exact match.
func c20Glob(pat, v string) bool {
	re, ok := c20GlobCache[pat]
	if !ok {
		parts := strings.Split(pat, "*")
		for i := range parts {
			parts[i] = regexp.QuoteMeta(parts[i])
		}
		re = regexp.MustCompile("^" + strings.Join(parts, ".*") + "$")
		c20GlobCache[pat] = re
	}
	return re.MatchString(v)
}

func c20Has(perms []string, want string) bool {
	for _, p := range perms {
		if p == "admin" || p == want {
			return true
		}
	}
	return false
}

// authenticates: what a fresh authentication of the token yields (issued,
// enabled, not expired).
func (st *c20State) authenticates(id int64, now time.Time) bool {
	r, ok := st.tokens[id]
	if !ok || !r.enabled {
		return false
	}
	return r.expires == nil || r.expires.After(now)
}

// decide returns (allowed, source) for an authenticated token.
func (st *c20State) decide(licensed bool, id int64, db, meas, perm string) (bool, string) {
	tok := st.tokens[id]
	if licensed && len(st.members[id]) > 0 && tok.enabled {
		for _, team := range st.members[id] {
			if !st.teamOn[team] {
				continue
			}
			for _, role := range st.roles {
				if role.team != team || !c20Glob(role.pat, db) {
					continue
				}
				if meas != "" {
					var mine []c20MPRow
					for _, mp := range st.mps {
						if mp.role == role.id {
							mine = append(mine, mp)
						}
					}
					if len(mine) > 0 {
						for _, mp := range mine {
							if c20Glob(mp.pat, meas) && c20Has(mp.perms, perm) {
								return true, "rbac"
							}
						}
						continue // measurement rules exist for this role and none grants
					}
				}
				if c20Has(role.perms, perm) {
					return true, "rbac"
				}
			}
		}
	}
	if c20Has(tok.perms, perm) {
		return true, "token"
	}
	return false, "denied"
}

// ---------------------------------------------------------------------------
// World
// ---------------------------------------------------------------------------

type c20Tok struct {
	id    int64
	value string
}

type c20World struct {
	rt       *rapid.T
	am       *AuthManager
	rm       *RBACManager
	db       *sql.DB
	cluster  bool // mutations currently go through proposer -> FSM -> appliers
	mixed    bool // starts in direct-DB mode and joins the cluster at a drawn step
	licensed bool
	fsm      *c20FSM
	gen      int
	tok      [c20NTok]c20Tok
	org      [c20NOrg]int64
	team     [c20NTeam]int64
	role     [c20NRole]int64
	mp       [c20NMP]int64
	hist     []string
	last     map[string]bool // probe key -> evaluator answer when it was last checked through the code
	lastAt   map[string]int // probe key -> len(hist) when it was last checked
	lastMut  string
	lastErr  error
	dir      string
	now      time.Time
	clock    time.Time // fake clock of rbac_manager.go
	maxCache int
	// focus: a "decouple" step drove the two cache levels of this token slot
	// apart; the next step changes that token's membership and the keys in
	// focusKeys are checked first
	focus     int
	focusKeys []c20Probe
}

type c20Probe struct {
	tok            int // slot
	verify         bool
	db, meas, perm string
}

func (p c20Probe) key() string {
	return fmt.Sprintf("t%d|%s|%s|%s", p.tok, p.db, p.meas, p.perm)
}

func c20Hash(v string) string { h := sha256.Sum256([]byte(v)); return hex.EncodeToString(h[:]) }

func c20NewWorld(t *rapid.T, cluster, licensed, onDisk bool, maxCache int) *c20World {
	w := &c20World{rt: t, cluster: cluster, licensed: licensed, last: map[string]bool{}, lastAt: map[string]int{}, now: time.Now(), focus: -1, maxCache: maxCache}
	path := ":memory:"
	if onDisk {
		d, err := os.MkdirTemp("", "c20-")
		if err != nil {
			t.Fatalf("harness: mkdtemp: %v", err)
		}
		w.dir = d
		path = filepath.Join(d, "auth.db")
	}
	am, err := NewAuthManager(path, time.Hour, 1000, zerolog.Nop())
	if err != nil {
		t.Fatalf("harness: NewAuthManager: %v", err)
	}
	w.am, w.db = am, am.GetDB()
	// maxCache 0 = the default 10000 entries per cache; 1-3 puts both RBAC caches
	// under pressure with 3 tokens, so per-token data and decisions are evicted
	// independently of each other
	cfg := &RBACManagerConfig{DB: w.db, Logger: zerolog.Nop(), CacheTTL: time.Hour, MaxCacheSize: maxCache}
	w.clock = w.now
	VerifSetClock(w.clock) // rbac_manager.go reads this clock (driver clock seam); auth.go keeps the real one
	if licensed {
		cfg.LicenseClient = license.VerifC20Client(license.FeatureRBAC)
	}
	w.rm = NewRBACManager(cfg)
	if licensed && !w.rm.IsRBACEnabled() {
		t.Fatalf("harness: licence seam did not enable RBAC")
	}
	if cluster {
		w.join(0)
	}
	return w
}

// join wires the proposer: from here on every manager write is proposed to the
// fake FSM and lands through the appliers. base is the first log index.
func (w *c20World) join(base int64) {
	w.fsm = c20NewFSM(w.am, w.rm, base)
	w.am.SetRaftProposer(w.fsm)
	w.rm.SetRaftProposer(w.fsm)
	w.cluster = true
}

func (w *c20World) modeName() string {
	switch {
	case w.mixed && w.cluster:
		return "mixed(joined)"
	case w.mixed:
		return "mixed(pre-join)"
	case w.cluster:
		return "cluster-apply"
	}
	return "direct"
}

// adopt re-attaches org/team slots to rows found by their slot name (an
// upgrade re-align re-inserts the organization under a new id).
func (w *c20World) adopt() {
	for i := range w.org {
		if w.org[i] == 0 {
			_ = w.db.QueryRow(`SELECT id FROM rbac_organizations WHERE name = ?`, fmt.Sprintf("org%d", i)).Scan(&w.org[i])
		}
	}
	for i := range w.team {
		if w.team[i] == 0 {
			_ = w.db.QueryRow(`SELECT id FROM rbac_teams WHERE name = ? ORDER BY id LIMIT 1`, fmt.Sprintf("team%d", i)).Scan(&w.team[i])
		}
	}
}

func (w *c20World) close() {
	VerifSetClock(time.Time{})
	_ = w.rm.Close()
	_ = w.am.Close()
	if w.dir != "" {
		_ = os.RemoveAll(w.dir)
	}
}

func (w *c20World) logf(f string, a ...any) { w.hist = append(w.hist, fmt.Sprintf(f, a...)) }

// sync drops slots whose row vanished (cascades, deletes).
func (w *c20World) sync() {
	chk := func(table string, id *int64) {
		if *id == 0 {
			return
		}
		var one int
		if err := w.db.QueryRow(`SELECT 1 FROM `+table+` WHERE id = ?`, *id).Scan(&one); err != nil {
			*id = 0
		}
	}
	for i := range w.tok {
		chk("api_tokens", &w.tok[i].id)
	}
	for i := range w.org {
		chk("rbac_organizations", &w.org[i])
	}
	for i := range w.team {
		chk("rbac_teams", &w.team[i])
	}
	for i := range w.role {
		chk("rbac_roles", &w.role[i])
	}
	for i := range w.mp {
		chk("rbac_measurement_permissions", &w.mp[i])
	}
}

// pick draws a slot index, preferring (9 in 10) one whose presence equals want.
func (w *c20World) pick(label string, ids []int64, want bool) int {
	var cands []int
	for i, id := range ids {
		if (id != 0) == want {
			cands = append(cands, i)
		}
	}
	if len(cands) > 0 && rapid.IntRange(0, 9).Draw(w.rt, label+"-pref") < 9 {
		return rapid.SampledFrom(cands).Draw(w.rt, label)
	}
	return rapid.IntRange(0, len(ids)-1).Draw(w.rt, label)
}

// pickTeam draws a team slot, two times in three among the slots whose team
// id is returned by q (teams that already carry roles / members), so that
// grants actually reach tokens.
func (w *c20World) pickTeam(q string) int {
	var pref []int
	if rows, err := w.db.Query(q); err == nil {
		for rows.Next() {
			var id int64
			if rows.Scan(&id) == nil {
				for j, t := range w.team {
					if t == id && t != 0 {
						pref = append(pref, j)
					}
				}
			}
		}
		rows.Close()
	}
	if len(pref) > 0 && rapid.IntRange(0, 2).Draw(w.rt, "team-linked") != 0 {
		return rapid.SampledFrom(pref).Draw(w.rt, "team")
	}
	return w.pick("team", w.team[:], true)
}

func (w *c20World) tokIDs() []int64 {
	out := make([]int64, c20NTok)
	for i := range w.tok {
		out[i] = w.tok[i].id
	}
	return out
}

// idOr returns the slot's id, or an id that does not exist.
func c20IDOr(id int64) int64 {
	if id == 0 {
		return 987654
	}
	return id
}

func c20PermSet(t *rapid.T, label string, allowEmpty bool) []string {
	min := 1
	if allowEmpty {
		min = 0
	}
	mask := rapid.IntRange(min, 15).Draw(t, label)
	var out []string
	for i, p := range c20Perms {
		if mask&(1<<i) != 0 {
			out = append(out, p)
		}
	}
	return out
}

var c20Actions = []string{
	"check", "check",
	"createOrg", "updateOrg", "deleteOrg", "deleteOrg",
	"createTeam", "createTeam", "updateTeam", "updateTeam", "updateTeam", "deleteTeam", "deleteTeam",
	"createRole", "createRole", "createRole", "updateRole", "updateRole", "updateRole", "deleteRole", "deleteRole",
	"createMP", "createMP", "deleteMP", "deleteMP",
	"addMember", "addMember", "addMember", "removeMember", "removeMember",
	"createToken", "createToken", "updateTokenPerms", "updateTokenPerms", "updateTokenExpiry", "revokeToken", "deleteToken", "rotateToken",
}

// actions: the base list plus the actions that only make sense in the
// current situation (so that they do not dilute the others as no-ops).
func (w *c20World) actions() []string {
	out := append([]string(nil), c20Actions...)
	if w.mixed && w.cluster {
		out = append(out, "seedFromLocal", "rawApply", "rawApply")
	}
	if w.licensed {
		out = append(out, "janitor", "decouple", "decouple")
	}
	return out
}

func (w *c20World) errStr(err error) string {
	w.lastErr = err
	if err == nil {
		return "ok"
	}
	return "err: " + err.Error()
}

func (w *c20World) createToken(slot int, perms []string, exp *time.Time) error {
	w.gen++
	value := fmt.Sprintf("c20-token-slot%d-gen%04d-0123456789abcdef0123456789", slot, w.gen)
	name := fmt.Sprintf("tok%d-g%d", slot, w.gen)
	ps := strings.Join(perms, ",")
	if w.cluster {
		e := ClusterTokenEntry{Name: name, Permissions: ps, TokenHash: c20Hash(value), TokenPrefix: tokenPrefix(value),
			CreatedAtUnixNano: w.now.UnixNano(), Enabled: true}
		if exp != nil {
			e.ExpiresAtUnixNano = exp.UnixNano()
		}
		id, err := w.fsm.createToken(e)
		if err != nil {
			return err
		}
		w.tok[slot] = c20Tok{id: id, value: value}
		return nil
	}
	// Direct mode: the shared insert used by CreateToken / CreateTokenWithValue,
	// fed a legacy sha256 hash so that the 600k-iteration PBKDF2 is not paid
	// thousands of times (hashing is irrelevant to permission decisions).
	if err := w.am.insertToken(c20Hash(value), tokenPrefix(value), name, "", ps, exp); err != nil {
		return err
	}
	var id int64
	if err := w.db.QueryRow(`SELECT id FROM api_tokens WHERE name = ?`, name).Scan(&id); err != nil {
		return err
	}
	w.tok[slot] = c20Tok{id: id, value: value}
	return nil
}

// step performs one generated action (or the forced one during set-up) and
// returns its kind ("" = no mutation).
func (w *c20World) step(forced string) string {
	t := w.rt
	ctx := context.Background()
	kind := forced
	if kind == "" {
		kind = rapid.SampledFrom(w.actions()).Draw(t, "action")
	}
	switch kind {
	case "check":
		w.logf("check")
		return ""
	case "decouple":
		// Drive the per-token RBAC data cache and the decision cache apart for
		// one token (they lose entries independently: by eviction under size
		// pressure, and by the janitor, which ages token data by load time but
		// decisions by their own later expiry). The next step changes that
		// token's membership, which must clear its decisions regardless.
		if !w.licensed {
			return ""
		}
		i := w.pick("tok", w.tokIDs(), true)
		if w.tok[i].id == 0 {
			return ""
		}
		st, err := c20Load(w.db)
		if err != nil {
			t.Fatalf("harness: evaluator load: %v", err)
		}
		var others []int
		for j := range w.tok {
			if j != i && w.tok[j].id != 0 {
				others = append(others, j)
			}
		}
		one := func(slot int) c20Probe {
			return c20Probe{tok: slot, db: rapid.SampledFrom(c20DBs).Draw(t, "db"), meas: rapid.SampledFrom(c20Meas).Draw(t, "meas"),
				perm: rapid.SampledFrom(c20Perms).Draw(t, "perm")}
		}
		var keys []c20Probe
		if w.maxCache > 0 && len(others) > 0 && rapid.Bool().Draw(t, "by-pressure") {
			// size pressure: a decision for the token, then misses for the other tokens
			k := one(i)
			keys = []c20Probe{k}
			seq := []c20Probe{k}
			for _, j := range others {
				seq = append(seq, one(j))
			}
			w.checkProbes(st, seq, 0, "decouple", 1)
			w.logf("decouple tok=%d by size pressure (max cache size %d): %d single checks", i, w.maxCache, len(seq))
			verifkit.Class("decouple-by-pressure")
		} else {
			// age: token data loaded now, decisions cached 40 minutes later, the
			// janitor runs 40 minutes after that (TTL 60)
			w.rm.InvalidateAllCache()
			w.checkProbes(st, []c20Probe{one(i)}, 0, "decouple", 1)
			w.clock = w.clock.Add(40 * time.Minute)
			VerifSetClock(w.clock)
			w.rm.cleanupExpiredCache()
			for _, db := range c20DBs {
				for _, meas := range c20Meas {
					for _, perm := range c20Perms {
						keys = append(keys, c20Probe{tok: i, db: db, meas: meas, perm: perm})
					}
				}
			}
			w.checkProbes(st, keys, 0, "decouple", 1)
			w.clock = w.clock.Add(40 * time.Minute)
			VerifSetClock(w.clock)
			w.rm.cleanupExpiredCache()
			w.logf("decouple tok=%d by age: flush, 1 check, +40m janitor, %d checks, +40m janitor", i, len(keys))
			verifkit.Class("decouple-by-age")
		}
		for _, p := range keys {
			want, _ := w.expect(st, p)
			w.last[p.key()] = want
			w.lastAt[p.key()] = len(w.hist)
		}
		w.focus, w.focusKeys = i, keys
		return ""
	case "focusMembership":
		i := w.focus
		w.focus = -1
		if w.tok[i].id == 0 {
			return ""
		}
		var mine []int64
		rows, err := w.db.Query(`SELECT team_id FROM rbac_token_memberships WHERE token_id = ? ORDER BY team_id`, w.tok[i].id)
		if err == nil {
			for rows.Next() {
				var id int64
				if rows.Scan(&id) == nil {
					mine = append(mine, id)
				}
			}
			rows.Close()
		}
		if len(mine) > 0 && rapid.IntRange(0, 3).Draw(t, "remove") != 0 {
			team := rapid.SampledFrom(mine).Draw(t, "team")
			err := w.rm.RemoveTokenFromTeam(ctx, w.tok[i].id, team)
			w.logf("removeMember (after decouple) tok=%d(id %d) team id %d -> %s", i, w.tok[i].id, team, w.errStr(err))
			kind = "removeMember"
		} else {
			j := w.pick("team", w.team[:], true)
			_, err := w.rm.AddTokenToTeam(ctx, w.tok[i].id, c20IDOr(w.team[j]))
			w.logf("addMember (after decouple) tok=%d(id %d) team=%d(id %d) -> %s", i, w.tok[i].id, j, w.team[j], w.errStr(err))
			kind = "addMember"
		}
	case "janitor":
		// time passes (cache TTL is one hour) and the minute janitor runs: it
		// drops per-token RBAC data by load time and decisions by their own,
		// later, expiry
		mins := rapid.SampledFrom([]int{20, 40, 61, 90}).Draw(t, "minutes")
		w.clock = w.clock.Add(time.Duration(mins) * time.Minute)
		VerifSetClock(w.clock)
		w.rm.cleanupExpiredCache()
		w.logf("janitor after +%dm", mins)
		verifkit.Class("janitor-run")
		return ""
	case "joinCluster":
		// the node joins a cluster: the FSM starts empty, log indexes either far
		// from or overlapping the local AUTOINCREMENT ids
		base := int64(1000)
		if rapid.IntRange(0, 3).Draw(t, "fsm-base-overlaps-local-ids") == 0 {
			base = 0
		}
		w.join(base)
		w.logf("joinCluster fsm-base=%d", base)
		if rapid.Bool().Draw(t, "seed-on-join") {
			err := w.rm.SeedRBACFromLocalSQLite(ctx)
			w.logf("seedFromLocal (on join) -> %s", w.errStr(err))
		}
	case "seedFromLocal":
		if !w.mixed || !w.cluster {
			return ""
		}
		err := w.rm.SeedRBACFromLocalSQLite(ctx)
		w.logf("seedFromLocal -> %s", w.errStr(err))
	case "rawApply":
		// A replicated Create arriving at a node that already holds a local row
		// with the same business key: same id (log replay) or a different id
		// (pre-cluster row / upgrade seed).
		if !w.mixed || !w.cluster {
			return ""
		}
		sameID := rapid.IntRange(0, 3).Draw(t, "same-id") == 0
		var err error
		switch rapid.SampledFrom([]string{"org", "org", "team", "role"}).Draw(t, "raw-kind") {
		case "org":
			i := w.pick("org", w.org[:], true)
			id := w.fsm.next()
			if sameID && w.org[i] != 0 {
				id = w.org[i]
			}
			w.fsm.orgs[id] = true
			err = w.rm.ApplyCreateOrganization(ClusterOrganizationEntry{ID: id, Name: fmt.Sprintf("org%d", i),
				CreatedAtUnixNano: w.now.UnixNano(), UpdatedAtUnixNano: w.now.UnixNano(), Enabled: true, LSN: uint64(id)})
			w.logf("rawApply CreateOrganization name=org%d id=%d (local id %d) -> %s", i, id, w.org[i], w.errStr(err))
		case "team":
			i := w.pick("team", w.team[:], true)
			j := w.pick("org", w.org[:], true)
			orgID := c20IDOr(w.org[j])
			if w.team[i] != 0 {
				_ = w.db.QueryRow(`SELECT organization_id FROM rbac_teams WHERE id = ?`, w.team[i]).Scan(&orgID)
			}
			id := w.fsm.next()
			if sameID && w.team[i] != 0 {
				id = w.team[i]
			}
			err = w.rm.ApplyCreateTeam(ClusterTeamEntry{ID: id, OrganizationID: orgID, Name: fmt.Sprintf("team%d", i),
				CreatedAtUnixNano: w.now.UnixNano(), UpdatedAtUnixNano: w.now.UnixNano(), Enabled: true, LSN: uint64(id)})
			if err == nil {
				w.fsm.teams[id] = true
			}
			w.logf("rawApply CreateTeam name=team%d org=%d id=%d (local id %d) -> %s", i, orgID, id, w.team[i], w.errStr(err))
		case "role":
			i := w.pick("role", w.role[:], true)
			e := ClusterRoleEntry{ID: w.fsm.next(), TeamID: c20IDOr(w.team[w.pick("team", w.team[:], true)]),
				DatabasePattern: rapid.SampledFrom(c20DBPatterns).Draw(t, "dbpat"),
				Permissions:     strings.Join(c20PermSet(t, "perms", false), ","), CreatedAtUnixNano: w.now.UnixNano()}
			if w.role[i] != 0 {
				var perms string
				_ = w.db.QueryRow(`SELECT team_id, database_pattern, permissions FROM rbac_roles WHERE id = ?`, w.role[i]).Scan(&e.TeamID, &e.DatabasePattern, &perms)
				if sameID {
					e.ID = w.role[i]
				}
			}
			err = w.rm.ApplyCreateRole(e)
			if err == nil {
				w.fsm.roles[e.ID] = true
			}
			w.logf("rawApply CreateRole id=%d team=%d pat=%s perms=%s (slot %d local id %d) -> %s", e.ID, e.TeamID, e.DatabasePattern, e.Permissions, i, w.role[i], w.errStr(err))
		}
	case "createOrg":
		i := w.pick("org", w.org[:], false)
		org, err := w.rm.CreateOrganization(ctx, &CreateOrganizationRequest{Name: fmt.Sprintf("org%d", i)})
		if err == nil && org != nil {
			w.org[i] = org.ID
		}
		w.logf("createOrg slot=%d -> %s", i, w.errStr(err))
	case "updateOrg":
		i := w.pick("org", w.org[:], true)
		en := rapid.Bool().Draw(t, "enabled")
		err := w.rm.UpdateOrganization(ctx, c20IDOr(w.org[i]), &UpdateOrganizationRequest{Enabled: &en})
		w.logf("updateOrg slot=%d enabled=%v -> %s", i, en, w.errStr(err))
	case "deleteOrg":
		i := w.pick("org", w.org[:], true)
		if !w.cluster && w.licensed && w.org[i] != 0 && verifkit.Excluded(kfC20OrgDelete) {
			var n int
			_ = w.db.QueryRow(`SELECT COUNT(*) FROM rbac_teams WHERE organization_id = ?`, w.org[i]).Scan(&n)
			if n > 0 {
				verifkit.CountExcluded(kfC20OrgDelete)
				w.logf("deleteOrg slot=%d skipped (known finding %s)", i, kfC20OrgDelete)
				return ""
			}
		}
		err := w.rm.DeleteOrganization(ctx, c20IDOr(w.org[i]))
		w.logf("deleteOrg slot=%d id=%d -> %s", i, w.org[i], w.errStr(err))
	case "createTeam":
		i := w.pick("team", w.team[:], false)
		j := w.pick("org", w.org[:], true)
		orgID := c20IDOr(w.org[j])
		if w.team[i] != 0 {
			// slot taken: re-create under its own organization (name conflict path)
			_ = w.db.QueryRow(`SELECT organization_id FROM rbac_teams WHERE id = ?`, w.team[i]).Scan(&orgID)
		}
		team, err := w.rm.CreateTeam(ctx, orgID, &CreateTeamRequest{Name: fmt.Sprintf("team%d", i)})
		if err == nil && team != nil {
			w.team[i] = team.ID
		}
		w.logf("createTeam slot=%d org=%d -> %s", i, orgID, w.errStr(err))
	case "updateTeam":
		i := w.pick("team", w.team[:], true)
		en := rapid.Bool().Draw(t, "enabled")
		err := w.rm.UpdateTeam(ctx, c20IDOr(w.team[i]), &UpdateTeamRequest{Enabled: &en})
		w.logf("updateTeam slot=%d id=%d enabled=%v -> %s", i, w.team[i], en, w.errStr(err))
	case "deleteTeam":
		i := w.pick("team", w.team[:], true)
		err := w.rm.DeleteTeam(ctx, c20IDOr(w.team[i]))
		w.logf("deleteTeam slot=%d id=%d -> %s", i, w.team[i], w.errStr(err))
	case "createRole":
		i := w.pick("role", w.role[:], false)
		if w.role[i] != 0 {
			w.logf("createRole slot=%d taken; no-op", i)
			return ""
		}
		j := w.pickTeam("SELECT DISTINCT team_id FROM rbac_token_memberships")
		pat := rapid.SampledFrom(c20DBPatterns).Draw(t, "dbpat")
		perms := c20PermSet(t, "perms", false)
		role, err := w.rm.CreateRole(ctx, c20IDOr(w.team[j]), &CreateRoleRequest{DatabasePattern: pat, Permissions: perms})
		if err == nil && role != nil {
			w.role[i] = role.ID
		}
		w.logf("createRole slot=%d team=%d pat=%s perms=%v -> %s", i, w.team[j], pat, perms, w.errStr(err))
	case "updateRole":
		i := w.pick("role", w.role[:], true)
		req := &UpdateRoleRequest{}
		what := rapid.IntRange(1, 3).Draw(t, "fields")
		if what&1 != 0 {
			pat := rapid.SampledFrom(c20DBPatterns).Draw(t, "dbpat")
			req.DatabasePattern = &pat
		}
		if what&2 != 0 {
			req.Permissions = c20PermSet(t, "perms", false)
		}
		err := w.rm.UpdateRole(ctx, c20IDOr(w.role[i]), req)
		w.logf("updateRole slot=%d id=%d pat=%v perms=%v -> %s", i, w.role[i], c20Deref(req.DatabasePattern), req.Permissions, w.errStr(err))
	case "deleteRole":
		i := w.pick("role", w.role[:], true)
		err := w.rm.DeleteRole(ctx, c20IDOr(w.role[i]))
		w.logf("deleteRole slot=%d id=%d -> %s", i, w.role[i], w.errStr(err))
	case "createMP":
		i := w.pick("mp", w.mp[:], false)
		if w.mp[i] != 0 {
			w.logf("createMP slot=%d taken; no-op", i)
			return ""
		}
		j := w.pick("role", w.role[:], true)
		pat := rapid.SampledFrom(c20MeasPatterns).Draw(t, "measpat")
		perms := c20PermSet(t, "perms", false)
		mp, err := w.rm.CreateMeasurementPermission(ctx, c20IDOr(w.role[j]), &CreateMeasurementPermissionRequest{MeasurementPattern: pat, Permissions: perms})
		if err == nil && mp != nil {
			w.mp[i] = mp.ID
		}
		w.logf("createMP slot=%d role=%d pat=%s perms=%v -> %s", i, w.role[j], pat, perms, w.errStr(err))
	case "deleteMP":
		i := w.pick("mp", w.mp[:], true)
		err := w.rm.DeleteMeasurementPermission(ctx, c20IDOr(w.mp[i]))
		w.logf("deleteMP slot=%d id=%d -> %s", i, w.mp[i], w.errStr(err))
	case "addMember":
		i := w.pick("tok", w.tokIDs(), true)
		j := w.pickTeam("SELECT DISTINCT team_id FROM rbac_roles")
		_, err := w.rm.AddTokenToTeam(ctx, c20IDOr(w.tok[i].id), c20IDOr(w.team[j]))
		w.logf("addMember tok=%d(id %d) team=%d(id %d) -> %s", i, w.tok[i].id, j, w.team[j], w.errStr(err))
	case "removeMember":
		i := w.pick("tok", w.tokIDs(), true)
		j := w.pick("team", w.team[:], true)
		err := w.rm.RemoveTokenFromTeam(ctx, c20IDOr(w.tok[i].id), c20IDOr(w.team[j]))
		w.logf("removeMember tok=%d(id %d) team=%d(id %d) -> %s", i, w.tok[i].id, j, w.team[j], w.errStr(err))
	case "createToken":
		i := w.pick("tok", w.tokIDs(), false)
		if w.tok[i].id != 0 {
			w.logf("createToken slot=%d taken; no-op", i)
			return ""
		}
		var perms []string // half of the tokens are RBAC-only, so role grants are not masked by the token's own permissions
		if rapid.Bool().Draw(t, "own-perms") {
			perms = c20PermSet(t, "perms", true)
		}
		var exp *time.Time
		switch rapid.IntRange(0, 9).Draw(t, "expiry") {
		case 0:
			e := w.now.Add(1000 * time.Hour)
			exp = &e
		case 1:
			e := w.now.Add(-1000 * time.Hour)
			exp = &e
		}
		err := w.createToken(i, perms, exp)
		w.logf("createToken slot=%d perms=%v exp=%v -> id %d %s", i, perms, exp, w.tok[i].id, w.errStr(err))
	case "updateTokenPerms":
		i := w.pick("tok", w.tokIDs(), true)
		perms := strings.Join(c20PermSet(t, "perms", true), ",")
		if w.licensed && verifkit.Excluded(kfC20TokenPerms) {
			verifkit.CountExcluded(kfC20TokenPerms)
			w.logf("updateTokenPerms slot=%d skipped (known finding %s)", i, kfC20TokenPerms)
			return ""
		}
		err := w.am.UpdateToken(ctx, c20IDOr(w.tok[i].id), nil, nil, &perms, nil)
		w.logf("updateTokenPerms slot=%d id=%d perms=%q -> %s", i, w.tok[i].id, perms, w.errStr(err))
	case "updateTokenExpiry":
		i := w.pick("tok", w.tokIDs(), true)
		e := w.now.Add(1000 * time.Hour)
		if rapid.Bool().Draw(t, "past") {
			e = w.now.Add(-1000 * time.Hour)
		}
		err := w.am.UpdateToken(ctx, c20IDOr(w.tok[i].id), nil, nil, nil, &e)
		w.logf("updateTokenExpiry slot=%d id=%d exp=%v -> %s", i, w.tok[i].id, e.Sub(w.now), w.errStr(err))
	case "revokeToken":
		i := w.pick("tok", w.tokIDs(), true)
		err := w.am.RevokeToken(ctx, c20IDOr(w.tok[i].id))
		w.logf("revokeToken slot=%d id=%d -> %s", i, w.tok[i].id, w.errStr(err))
	case "deleteToken":
		i := w.pick("tok", w.tokIDs(), true)
		err := w.am.DeleteToken(ctx, c20IDOr(w.tok[i].id))
		w.logf("deleteToken slot=%d id=%d -> %s", i, w.tok[i].id, w.errStr(err))
	case "rotateToken":
		// cluster mode only (the applier takes the new hash as given); the direct
		// RotateToken pays a PBKDF2 per call and belongs to C21.
		if !w.cluster {
			w.logf("rotateToken (direct) not generated; no-op")
			return ""
		}
		i := w.pick("tok", w.tokIDs(), true)
		if w.tok[i].id == 0 {
			return ""
		}
		w.gen++
		nv := fmt.Sprintf("c20-token-slot%d-gen%04d-rotated-0123456789abcdef01", i, w.gen)
		payload, _ := json.Marshal(struct {
			ID        int64  `json:"id"`
			NewHash   string `json:"new_hash"`
			NewPrefix string `json:"new_prefix"`
		}{w.tok[i].id, c20Hash(nv), tokenPrefix(nv)})
		err := w.fsm.Propose(ctx, ProposalCommandRotateToken, payload, time.Second)
		if err == nil {
			w.tok[i].value = nv
		}
		w.logf("rotateToken slot=%d id=%d -> %s", i, w.tok[i].id, w.errStr(err))
	}
	return kind
}

func c20Deref(s *string) string {
	if s == nil {
		return "-"
	}
	return *s
}

// tokenInfo produces the TokenInfo a request carrying this token would reach
// CheckPermission with: either through VerifyToken (the middleware path) or a
// fresh row read filtered the way authentication filters (enabled, unexpired).
func (w *c20World) tokenInfo(p c20Probe) *TokenInfo {
	tk := w.tok[p.tok]
	if tk.value == "" {
		return nil
	}
	if p.verify {
		return w.am.VerifyToken(tk.value)
	}
	if tk.id == 0 {
		return nil
	}
	ti, err := w.am.GetTokenByID(tk.id)
	if err != nil || ti == nil || !ti.Enabled {
		return nil
	}
	if ti.ExpiresAt != nil && !ti.ExpiresAt.After(time.Now()) {
		return nil
	}
	return ti
}

func (w *c20World) expect(st *c20State, p c20Probe) (bool, string) {
	tk := w.tok[p.tok]
	if tk.id == 0 || !st.authenticates(tk.id, time.Now()) {
		return false, "denied"
	}
	return st.decide(w.licensed, tk.id, p.db, p.meas, p.perm)
}

func (w *c20World) fail(class, phase string, p c20Probe, got *PermissionCheckResult, want bool, wantSrc string) {
	was, seen := w.last[p.key()]
	w.rt.Fatalf("VERIF-FAIL class=C20/%s phase=%s mode=%s licensed=%v probe=%s verify=%v got={allowed:%v source:%s} want={allowed:%v source:%s} previously-checked=%v previous-answer=%v last-mutation=%q\nhistory:\n  %s",
		class, phase, w.modeName(), w.licensed, p.key(), p.verify,
		got.Allowed, got.Source, want, wantSrc, seen, was, w.lastMut, strings.Join(w.hist, "\n  "))
}

// checkProbes runs the probes through the chosen API and compares with the
// evaluator. api: 0 single, 1 batch, 2 mixed.
func (w *c20World) checkProbes(st *c20State, probes []c20Probe, api int, phase string, chunk int) {
	i := 0
	for i < len(probes) {
		useBatch := api == 1 || (api == 2 && (i/chunk)%2 == 1)
		n := 1
		if useBatch {
			n = chunk
			if i+n > len(probes) {
				n = len(probes) - i
			}
		}
		part := probes[i : i+n]
		i += n
		reqs := make([]*PermissionCheckRequest, len(part))
		for k, p := range part {
			reqs[k] = &PermissionCheckRequest{TokenInfo: w.tokenInfo(p), Database: p.db, Measurement: p.meas, Permission: p.perm}
		}
		var res []*PermissionCheckResult
		if useBatch {
			res = w.rm.CheckPermissionsBatch(reqs)
			verifkit.Class("api-batch")
		} else {
			res = []*PermissionCheckResult{w.rm.CheckPermission(reqs[0])}
			verifkit.Class("api-single")
		}
		if len(res) != len(reqs) {
			w.rt.Fatalf("VERIF-FAIL class=C20/batch-length got %d results for %d requests", len(res), len(reqs))
		}
		for k, p := range part {
			verifkit.Eval()
			want, wantSrc := w.expect(st, p)
			if res[k] == nil {
				w.rt.Fatalf("VERIF-FAIL class=C20/nil-result probe=%s", p.key())
			}
			if res[k].Allowed != want {
				class := "stale-decision"
				if phase == "cold" {
					class = "policy-mismatch"
				}
				if w.lastMut != "" && phase != "cold" {
					class += "-after-" + w.lastMut
				}
				w.fail(class, phase, p, res[k], want, wantSrc)
			}
			if res[k].Source != wantSrc {
				verifkit.Class("source-differs-decision-equal")
			}
		}
	}
}

func (w *c20World) drawProbes() []c20Probe {
	t := w.rt
	var out []c20Probe
	full := rapid.IntRange(0, 3).Draw(t, "sweep") == 0
	tokMask := rapid.IntRange(1, 7).Draw(t, "probe-tokens")
	dbMask := rapid.IntRange(1, 31).Draw(t, "probe-dbs")
	measMask := rapid.IntRange(1, 15).Draw(t, "probe-meas")
	permMask := rapid.IntRange(1, 15).Draw(t, "probe-perms")
	verifyMask := rapid.IntRange(0, 7).Draw(t, "probe-verify")
	for ti := 0; ti < c20NTok; ti++ {
		if !full && tokMask&(1<<ti) == 0 {
			continue
		}
		for di, db := range c20DBs {
			if !full && dbMask&(1<<di) == 0 {
				continue
			}
			for mi, meas := range c20Meas {
				if !full && measMask&(1<<mi) == 0 {
					continue
				}
				for pi, perm := range c20Perms {
					if !full && permMask&(1<<pi) == 0 {
						continue
					}
					out = append(out, c20Probe{tok: ti, verify: verifyMask&(1<<ti) != 0, db: db, meas: meas, perm: perm})
				}
			}
		}
	}
	return out
}

func c20RunHistory(t *rapid.T) {
	mode := rapid.SampledFrom([]string{"direct", "cluster-apply", "mixed"}).Draw(t, "mode")
	cluster := mode == "cluster-apply"
	licensed := rapid.IntRange(0, 9).Draw(t, "licensed") != 0
	onDisk := rapid.IntRange(0, 7).Draw(t, "on-disk") == 0
	maxCache := rapid.SampledFrom([]int{0, 0, 0, 0, 0, 1, 2, 2}).Draw(t, "rbac-max-cache-size")
	w := c20NewWorld(t, cluster, licensed, onDisk, maxCache)
	defer w.close()
	if maxCache > 0 {
		verifkit.Class("cache-pressure(max-cache-size<=3)")
	}
	w.mixed = mode == "mixed"
	verifkit.Class("mode-" + mode)
	verifkit.Class(map[bool]string{true: "rbac-licensed", false: "rbac-unlicensed"}[licensed])

	// Set-up: a drawn number of constructive actions in dependency order, so
	// that most histories start from a populated world. They go through the
	// same code paths and are checked like any other step.
	var plan []string
	min := rapid.IntRange(0, 3).Draw(t, "setup-min") // 0: may start empty; otherwise at least one of each
	if min > 1 {
		min = 1
	}
	for _, k := range []struct {
		kind string
		max  int
	}{{"createOrg", 2}, {"createTeam", 3}, {"createRole", 4}, {"createToken", 3}, {"addMember", 5}, {"createMP", 2}} {
		lo := min
		if k.kind == "createMP" {
			lo = 0
		}
		n := rapid.IntRange(lo, k.max).Draw(t, "setup-"+k.kind)
		for i := 0; i < n; i++ {
			plan = append(plan, k.kind)
		}
	}
	steps := rapid.IntRange(4, verifkit.Scale(30, 60)).Draw(t, "steps")
	joinAt := -1
	if w.mixed {
		// the direct-DB state (set-up + some steps, all checked and cached) comes
		// first; then the node joins and the rest arrives through the appliers
		joinAt = len(plan) + rapid.IntRange(0, steps-1).Draw(t, "join-at")
	}
	for s := 0; s < len(plan)+steps; s++ {
		forced := ""
		if s < len(plan) {
			forced = plan[s]
		}
		if s == joinAt {
			forced = "joinCluster"
		}
		var first []c20Probe
		if forced == "" && w.focus >= 0 {
			forced, first = "focusMembership", w.focusKeys
		} else if forced != "" {
			w.focus = -1
		}
		w.lastErr = nil
		mut := w.step(forced)
		w.sync()
		w.adopt()
		if mut != "" {
			w.lastMut = mut
			if w.lastErr == nil {
				verifkit.Class("mut-" + mut)
			} else {
				verifkit.Class("rejected-" + mut)
			}
		}
		st, err := c20Load(w.db)
		if err != nil {
			t.Fatalf("harness: evaluator load: %v", err)
		}
		probes := append(append([]c20Probe(nil), first...), w.drawProbes()...)
		api := rapid.IntRange(0, 2).Draw(t, "api")
		chunk := rapid.IntRange(1, 12).Draw(t, "batch-k")

		// non-trivial: the key was checked through the code before this step's
		// mutation and the policy's answer on the stored state has changed.
		if mut != "" {
			for _, p := range probes {
				want, _ := w.expect(st, p)
				if was, ok := w.last[p.key()]; ok && was != want {
					verifkit.Class("nontrivial-flip")
					k := fmt.Sprintf("%s|%v|%s|%s|%v", w.modeName(), licensed, mut, p.key(), want)
					verifkit.NonTrivial(k)
					if verifkit.SampleCount() < 5 && !c20Sampled[mut] {
						c20Sampled[mut] = true
						verifkit.Sample(map[string]any{"mode": w.modeName(),
							"history_since_key_last_checked": append([]string(nil), w.hist[w.lastAt[p.key()]:]...), "probe": p.key(),
							"answer_at_last_check": was, "answer_now": want})
					}
				}
			}
		}

		// A: the very next check after the step (cache entries from earlier
		// checks may exist); B: same keys again through the other API (hit path);
		// C: sometimes, after an explicit InvalidateAllCache (cold path).
		w.checkProbes(st, probes, api, "first-check", chunk)
		w.checkProbes(st, probes, (api+1)%3, "cache-hit", chunk)
		if rapid.IntRange(0, 3).Draw(t, "cold") == 0 {
			w.rm.InvalidateAllCache()
			w.checkProbes(st, probes, api, "cold", chunk)
			verifkit.Class("cold-recheck")
		}
		for _, p := range probes {
			want, _ := w.expect(st, p)
			w.last[p.key()] = want
			w.lastAt[p.key()] = len(w.hist)
		}
	}
}

func TestVerifC20_History(t *testing.T) {
	rapid.Check(t, c20RunHistory)
}

// ---------------------------------------------------------------------------
// Known-finding reproductions (never fail; report through verifkit.KnownFinding)
// ---------------------------------------------------------------------------

type c20Fixture struct {
	am    *AuthManager
	rm    *RBACManager
	tokID int64
}

func c20NewFixture(t *testing.T, perms string) *c20Fixture {
	am, err := NewAuthManager(":memory:", time.Hour, 100, zerolog.Nop())
	if err != nil {
		t.Fatalf("NewAuthManager: %v", err)
	}
	t.Cleanup(func() { am.Close() })
	rm := NewRBACManager(&RBACManagerConfig{DB: am.GetDB(), Logger: zerolog.Nop(), CacheTTL: time.Hour,
		LicenseClient: license.VerifC20Client(license.FeatureRBAC)})
	t.Cleanup(func() { rm.Close() })
	v := "c20-kf-token-0123456789abcdef0123456789abcdef"
	if err := am.insertToken(c20Hash(v), tokenPrefix(v), "kf", "", perms, nil); err != nil {
		t.Fatalf("insertToken: %v", err)
	}
	f := &c20Fixture{am: am, rm: rm}
	if err := am.GetDB().QueryRow(`SELECT id FROM api_tokens WHERE name='kf'`).Scan(&f.tokID); err != nil {
		t.Fatal(err)
	}
	return f
}

func (f *c20Fixture) allowed(t *testing.T, db, perm string) bool {
	ti, err := f.am.GetTokenByID(f.tokID)
	if err != nil || ti == nil {
		t.Fatalf("GetTokenByID: %v %v", ti, err)
	}
	return f.rm.CheckPermission(&PermissionCheckRequest{TokenInfo: ti, Database: db, Permission: perm}).Allowed
}

// Direct (OSS) mode: org -> team -> role(* : read) -> member; check (allowed,
// cached); DeleteOrganization (rows cascade away); check again.
func TestVerifKF_C20_oss_delete_org(t *testing.T) {
	f := c20NewFixture(t, "")
	ctx := context.Background()
	org, err := f.rm.CreateOrganization(ctx, &CreateOrganizationRequest{Name: "org0"})
	if err != nil {
		t.Fatal(err)
	}
	team, err := f.rm.CreateTeam(ctx, org.ID, &CreateTeamRequest{Name: "team0"})
	if err != nil {
		t.Fatal(err)
	}
	if _, err := f.rm.CreateRole(ctx, team.ID, &CreateRoleRequest{DatabasePattern: "*", Permissions: []string{"read"}}); err != nil {
		t.Fatal(err)
	}
	if _, err := f.rm.AddTokenToTeam(ctx, f.tokID, team.ID); err != nil {
		t.Fatal(err)
	}
	before := f.allowed(t, "prod", "read")
	if err := f.rm.DeleteOrganization(ctx, org.ID); err != nil {
		t.Fatal(err)
	}
	var left int
	_ = f.am.GetDB().QueryRow(`SELECT COUNT(*) FROM rbac_token_memberships`).Scan(&left)
	after := f.allowed(t, "prod", "read")
	verifkit.Eval()
	verifkit.NonTrivial("kf-oss-delete-org")
	verifkit.KnownFinding(kfC20OrgDelete, before && left == 0 && after,
		fmt.Sprintf("allowed before delete=%v, memberships left after DeleteOrganization=%d, allowed after=%v (policy on stored state: denied)", before, left, after))
}

// Token with own permission "read,write"; check write (allowed via token,
// cached); UpdateToken narrows to "read"; check write with the fresh TokenInfo.
func TestVerifKF_C20_token_perms(t *testing.T) {
	f := c20NewFixture(t, "read,write")
	ctx := context.Background()
	before := f.allowed(t, "prod", "write")
	narrowed := "read"
	if err := f.am.UpdateToken(ctx, f.tokID, nil, nil, &narrowed, nil); err != nil {
		t.Fatal(err)
	}
	ti, _ := f.am.GetTokenByID(f.tokID)
	after := f.allowed(t, "prod", "write")
	verifkit.Eval()
	verifkit.NonTrivial("kf-token-perms")
	verifkit.KnownFinding(kfC20TokenPerms, before && after && ti != nil && len(ti.Permissions) == 1,
		fmt.Sprintf("write allowed before=%v; token permissions now %v; write allowed after narrowing=%v (policy: denied)", before, ti.Permissions, after))
}
