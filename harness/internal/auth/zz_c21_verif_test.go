//go:build verif

package auth

// C21 - Revoked, deleted or rotated token values stop authenticating
// immediately.
//
// Enumerated fault injection over schedules: auth.go is compiled from an
// instrumented copy (overlaygen/c21_sched.py) with schedule points in
// VerifyToken (after the cache-lookup miss, after the token query, before the
// cache-insert lock) and InvalidateCache (enter, exit). A cooperative
// scheduler parks every controlled goroutine (1 mutation x 1-3 verifiers of
// the same token value) at those points and releases exactly one at a time in
// a generated order; a released goroutine that blocks on the single SQLite
// connection held by a parked one is recognised from its goroutine state
// (select inside database/sql.(*DB).conn), never from elapsed time.

import (
	"bytes"
	"context"
	"crypto/sha256"
	"encoding/hex"
	"encoding/json"
	"flag"
	"fmt"
	"os"
	"runtime"
	"strconv"
	"strings"
	"sync"
	"sync/atomic"
	"testing"
	"time"

	"github.com/basekick-labs/arc/internal/verifkit"
	"github.com/rs/zerolog"
	"pgregory.net/rapid"
)

const kfC21Expiry = "C21-cache-hit-ignores-expiry"

var c21Shards = flag.Int("c21.shards", 1, "number of shards the thorough enumeration is split over")

var c21T0 = time.Date(2026, 1, 2, 3, 4, 5, 0, time.UTC)

// ---------------------------------------------------------------------------
// Cooperative scheduler
// ---------------------------------------------------------------------------

const (
	c21Parked = iota
	c21Running
	c21Finished
)

type c21G struct {
	name     string
	verifier bool
	goid     int64
	state    int
	point    string // last point reached ("" = not started)
	resume   chan struct{}
	fn       func() any
	result   any
	startAt  int // trace index of the first release
	endAt    int // trace index of the finish event
	blocked  bool
}

type c21Ev struct {
	g     *c21G
	point string
	fin   bool
}

type c21Sched struct {
	gs      []*c21G
	byGoid  sync.Map
	events  chan c21Ev
	trace   []string
	choices []int
	widths  []int
	stackB  []byte
	err     string
	// poolBusy reports whether the database connection pool is exhausted right
	// now (observed from sql.DB.Stats while nothing is running).
	poolBusy func() bool
}

func c21Goid() int64 {
	var buf [64]byte
	n := runtime.Stack(buf[:], false)
	s := buf[:n]
	s = s[len("goroutine "):]
	i := bytes.IndexByte(s, ' ')
	id, _ := strconv.ParseInt(string(s[:i]), 10, 64)
	return id
}

func (s *c21Sched) hook(point string) {
	v, ok := s.byGoid.Load(c21Goid())
	if !ok {
		return // not a controlled goroutine
	}
	g := v.(*c21G)
	s.events <- c21Ev{g: g, point: point}
	<-g.resume
}

func (s *c21Sched) add(name string, verifier bool, fn func() any) *c21G {
	g := &c21G{name: name, verifier: verifier, resume: make(chan struct{}), fn: fn, startAt: -1, endAt: -1}
	s.gs = append(s.gs, g)
	return g
}

func (s *c21Sched) start() {
	var ready sync.WaitGroup
	for _, g := range s.gs {
		ready.Add(1)
		go func(g *c21G) {
			g.goid = c21Goid()
			s.byGoid.Store(g.goid, g)
			ready.Done()
			<-g.resume
			g.result = g.fn()
			s.events <- c21Ev{g: g, fin: true}
		}(g)
	}
	ready.Wait()
}

func (s *c21Sched) apply(ev c21Ev) {
	g := ev.g
	g.blocked = false
	if ev.fin {
		g.state = c21Finished
		g.endAt = len(s.trace)
		s.trace = append(s.trace, g.name+"#done")
		return
	}
	g.state = c21Parked
	g.point = ev.point
	s.trace = append(s.trace, g.name+"@"+ev.point)
}

func (s *c21Sched) stacks() []byte {
	if s.stackB == nil {
		s.stackB = make([]byte, 256<<10)
	}
	for {
		n := runtime.Stack(s.stackB, true)
		if n < len(s.stackB) {
			return s.stackB[:n]
		}
		s.stackB = make([]byte, 2*len(s.stackB))
	}
}

// c21BlockedInDB: the goroutine is parked in the wait of database/sql's
// connection pool (status "select" with (*DB).conn on its stack). A goroutine
// that has already been handed the connection is "runnable", not "select".
func c21BlockedInDB(dump []byte, goid int64) bool {
	st, inConn := c21GoStatus(dump, goid)
	return strings.HasPrefix(st, "select") && inConn
}

// c21BlockedOnSync: the goroutine waits on a sync primitive (WaitGroup, mutex,
// semaphore), e.g. a verifier that joined another verifier's in-flight lookup.
func c21BlockedOnSync(dump []byte, goid int64) bool {
	st, _ := c21GoStatus(dump, goid)
	return strings.HasPrefix(st, "semacquire") || strings.HasPrefix(st, "sync.")
}

// c21GoStatus returns the goroutine's status text and whether its stack is
// inside database/sql's connection wait.
func c21GoStatus(dump []byte, goid int64) (string, bool) {
	hdr := []byte(fmt.Sprintf("goroutine %d [", goid))
	off := 0
	for {
		i := bytes.Index(dump[off:], hdr)
		if i < 0 {
			return "", false
		}
		i += off
		if i == 0 || dump[i-1] == '\n' {
			block := dump[i:]
			if e := bytes.Index(block, []byte("\n\n")); e >= 0 {
				block = block[:e]
			}
			status := block[len(hdr):]
			if e := bytes.IndexByte(status, ']'); e >= 0 {
				status = status[:e]
			}
			return string(status), bytes.Contains(block, []byte("database/sql.(*DB).conn("))
		}
		off = i + len(hdr)
	}
}

// quiesce waits until every released goroutine has parked at a point,
// finished, or is blocked on the database connection.
func (s *c21Sched) quiesce() {
	deadline := time.Now().Add(60 * time.Second) // liveness watchdog only, never an oracle
	for {
		for more := true; more; {
			select {
			case ev := <-s.events:
				s.apply(ev)
			default:
				more = false
			}
		}
		var run []*c21G
		for _, g := range s.gs {
			if g.state == c21Running {
				run = append(run, g)
			}
		}
		if len(run) == 0 {
			return
		}
		select {
		case ev := <-s.events:
			s.apply(ev)
			continue
		case <-time.After(50 * time.Microsecond):
		}
		dump := s.stacks()
		all := true
		onSync := false
		for _, g := range run {
			if c21BlockedInDB(dump, g.goid) {
				continue
			}
			if c21BlockedOnSync(dump, g.goid) {
				onSync = true
				continue
			}
			all = false
			break
		}
		if all && onSync {
			// A wait on a sync primitive can be momentary (a mutex held for a few
			// instructions by a runtime-internal goroutine): accept it only when
			// it is still there in three more dumps, with yields in between.
			for k := 0; k < 3 && all; k++ {
				select {
				case ev := <-s.events:
					s.apply(ev)
					all = false
				case <-time.After(500 * time.Microsecond):
					d2 := s.stacks()
					for _, g := range run {
						if g.state == c21Running && !c21BlockedInDB(d2, g.goid) && !c21BlockedOnSync(d2, g.goid) {
							all = false
						}
					}
				}
			}
			if !all {
				continue
			}
		}
		if all {
			select {
			case ev := <-s.events:
				s.apply(ev)
				continue
			default:
			}
			for _, g := range run {
				if !g.blocked {
					g.blocked = true
					if c21BlockedInDB(dump, g.goid) {
						s.trace = append(s.trace, g.name+"~blocked-on-db-conn")
					} else {
						s.trace = append(s.trace, g.name+"~blocked-on-sync")
					}
				}
			}
			return
		}
		if time.Now().After(deadline) {
			s.err = "watchdog: released goroutine neither parked, finished nor blocked on the database\n" + string(dump)
			return
		}
	}
}

// c21NextSegmentOpensWithDB: the code between this point and the next one
// starts with a database call (VerifyToken: the token query follows the
// cache-miss point; every mutation starts with its SQL statement).
func c21NextSegmentOpensWithDB(g *c21G) bool {
	if g.verifier {
		return g.point == "verify:after-cache-miss"
	}
	return g.point == ""
}

// run releases one parked goroutine at a time, chosen by choose(step, width).
// Verifiers are interchangeable, so among verifiers parked at the same
// pre-query point only the lowest-numbered one is offered (symmetry reduction).
func (s *c21Sched) run(choose func(step, width int) int) {
	for s.err == "" {
		var cands []*c21G
		running := 0
		busy := s.poolBusy != nil && s.poolBusy()
		for _, g := range s.gs {
			switch g.state {
			case c21Running:
				running++
			case c21Parked:
				// While a parked verifier holds the only connection, a goroutine whose
				// next segment opens with a database call would just block until that
				// verifier returns, having done nothing observable; it is offered again
				// once the connection is free. (With two such waiters database/sql picks
				// the next owner at random, which no schedule could reproduce.)
				if busy && c21NextSegmentOpensWithDB(g) {
					continue
				}
				dup := false
				if g.verifier && (g.point == "" || g.point == "verify:after-cache-miss") {
					for _, o := range cands {
						if o.verifier && o.point == g.point {
							dup = true
						}
					}
				}
				if !dup {
					cands = append(cands, g)
				}
			}
		}
		if len(cands) == 0 {
			if running > 0 {
				s.err = "deadlock: goroutines blocked on the database connection and nothing left to release: " + strings.Join(s.trace, " ")
			}
			return
		}
		k := choose(len(s.choices), len(cands))
		if k < 0 || k >= len(cands) {
			k = ((k % len(cands)) + len(cands)) % len(cands)
		}
		s.choices = append(s.choices, k)
		s.widths = append(s.widths, len(cands))
		g := cands[k]
		if g.startAt < 0 {
			g.startAt = len(s.trace)
		}
		s.trace = append(s.trace, ">"+g.name)
		g.state = c21Running
		g.resume <- struct{}{}
		s.quiesce()
	}
}

// ---------------------------------------------------------------------------
// Cases
// ---------------------------------------------------------------------------

type c21Case struct {
	Kind      string `json:"kind"` // revoke | delete | rotate | expire (UpdateToken expires_at -> past)
	Cluster   bool   `json:"cluster_apply"`
	Verifiers int    `json:"verifiers"`
	Warm      bool   `json:"cache_warm"`
	// Legacy: the token row predates the token_prefix column (prefix NULL, bare
	// sha256 hash) and was back-filled to '__legacy__' at start-up.
	Legacy bool `json:"legacy_row"`
}

func (c c21Case) String() string {
	m, w := "direct", "cold"
	if c.Cluster {
		m = "cluster-apply"
	}
	if c.Warm {
		w = "warm"
	}
	o := ""
	if c.Legacy {
		o = "/legacy-row"
	}
	return fmt.Sprintf("%s/%s/%dv/%s%s", c.Kind, m, c.Verifiers, w, o)
}

func c21AllCases(maxVerifiers int) []c21Case {
	var out []c21Case
	for _, k := range []string{"revoke", "delete", "rotate", "expire"} {
		for _, cl := range []bool{false, true} {
			for v := 1; v <= maxVerifiers; v++ {
				for _, w := range []bool{false, true} {
					out = append(out, c21Case{Kind: k, Cluster: cl, Verifiers: v, Warm: w})
				}
			}
		}
	}
	// the same cases on a legacy-marked row, appended so that the case order
	// (and with it the shard assignment) of the others is unchanged
	for _, c := range append([]c21Case(nil), out...) {
		c.Legacy = true
		out = append(out, c)
	}
	return out
}

// c21InsertLegacyRow writes a token row the way a release without the
// token_prefix column left it (no prefix, bare sha256 hash) and runs the
// start-up back-fill that marks it '__legacy__'.
func c21InsertLegacyRow(am *AuthManager, name, value, perms string, exp *time.Time) (int64, error) {
	var e any
	if exp != nil {
		e = *exp
	}
	if _, err := am.db.Exec(`INSERT INTO api_tokens (name, token_hash, description, permissions, expires_at) VALUES (?, ?, '', ?, ?)`,
		name, c21Sha(value), perms, e); err != nil {
		return 0, err
	}
	am.backfillTokenPrefixes() // what initDB does on every start
	var id int64
	var prefix string
	if err := am.db.QueryRow(`SELECT id, token_prefix FROM api_tokens WHERE name = ?`, name).Scan(&id, &prefix); err != nil {
		return 0, err
	}
	if prefix != "__legacy__" {
		return 0, fmt.Errorf("legacy row was not back-filled (prefix %q)", prefix)
	}
	return id, nil
}

type c21Result struct {
	Case      c21Case  `json:"case"`
	Choices   []int    `json:"choices"`
	Widths    []int    `json:"widths"`
	Trace     []string `json:"trace"`
	Verifier  []string `json:"verifier_results"`
	MutErr    string   `json:"mutation_error"`
	After     []string `json:"verify_old_value_after"`
	Violation string   `json:"violation,omitempty"`
	Overlap   bool     `json:"overlap"`
	RaceShape bool     `json:"read_before_update_insert_after_invalidate"`
	Harness   string   `json:"harness_error,omitempty"`
}

func c21Sha(v string) string { h := sha256.Sum256([]byte(v)); return hex.EncodeToString(h[:]) }

func c21Desc(ti *TokenInfo) string {
	if ti == nil {
		return "nil"
	}
	return fmt.Sprintf("TokenInfo{id:%d enabled:%v}", ti.ID, ti.Enabled)
}

var c21Seq atomic.Int64

// c21NewManager builds an AuthManager on a private in-memory database with
// its background goroutines stopped: the last_used_at writer shares the single
// SQLite connection with the goroutines under schedule control and would make
// "who holds the connection" depend on timing. It is a best-effort statistic
// and no part of the property.
func c21NewManager(ttl time.Duration) (*AuthManager, func(), error) {
	am, err := NewAuthManager(":memory:", ttl, 100, zerolog.Nop())
	if err != nil {
		return nil, nil, err
	}
	close(am.shutdown)
	am.lastUsedWG.Wait()
	return am, func() { _ = am.db.Close() }, nil
}

// c21RunSchedule executes one schedule of one case against a fresh manager.
func c21RunSchedule(c c21Case, choose func(step, width int) int) *c21Result {
	res := &c21Result{Case: c}
	VerifSetClock(c21T0)
	defer VerifSetClock(time.Time{})
	am, closeFn, err := c21NewManager(5 * time.Minute)
	if err != nil {
		res.Harness = "NewAuthManager: " + err.Error()
		return res
	}
	defer closeFn()
	ctx := context.Background()
	n := c21Seq.Add(1)
	old := fmt.Sprintf("c21-old-token-value-%08d-0123456789abcdef", n)
	var exp *time.Time
	if c.Kind == "expire" {
		e := c21T0.Add(time.Hour)
		exp = &e
	}
	var id int64
	if c.Legacy {
		id, err = c21InsertLegacyRow(am, "victim", old, "read,write", exp)
	} else if c.Cluster {
		id = 7
		e := ClusterTokenEntry{ID: id, Name: "victim", Permissions: "read,write", TokenHash: c21Sha(old), TokenPrefix: tokenPrefix(old),
			CreatedAtUnixNano: c21T0.UnixNano(), Enabled: true}
		if exp != nil {
			e.ExpiresAtUnixNano = exp.UnixNano()
		}
		err = am.ApplyCreateToken(e)
	} else {
		// the shared insert behind CreateToken/CreateTokenWithValue, fed a legacy
		// sha256 hash so that verifications do not pay a 600k-iteration PBKDF2
		err = am.insertToken(c21Sha(old), tokenPrefix(old), "victim", "", "read,write", exp)
		if err == nil {
			err = am.db.QueryRow(`SELECT id FROM api_tokens WHERE name='victim'`).Scan(&id)
		}
	}
	if err != nil {
		res.Harness = "create token: " + err.Error()
		return res
	}
	// warm-up: a miss that caches the entry, then a hit; afterwards two minutes
	// pass on the fake clock (cache TTL is five), so the cached entry is neither
	// brand new nor was it used within the last minute
	if am.VerifyToken(old) == nil || am.VerifyToken(old) == nil {
		res.Harness = "token does not authenticate before the mutation"
		return res
	}
	VerifSetClock(c21T0.Add(2 * time.Minute))
	if !c.Warm {
		am.InvalidateCache()
	}

	s := &c21Sched{events: make(chan c21Ev, 16)}
	s.poolBusy = func() bool {
		st := am.db.Stats()
		return st.MaxOpenConnections > 0 && st.InUse >= st.MaxOpenConnections
	}
	mut := s.add("M", false, func() any {
		switch c.Kind {
		case "revoke":
			if c.Cluster {
				return am.ApplyRevokeToken(id)
			}
			return am.RevokeToken(ctx, id)
		case "delete":
			if c.Cluster {
				return am.ApplyDeleteToken(id)
			}
			return am.DeleteToken(ctx, id)
		case "rotate":
			if c.Cluster {
				nv := old + "-rotated"
				return am.ApplyRotateToken(id, c21Sha(nv), tokenPrefix(nv))
			}
			_, err := am.RotateToken(ctx, id)
			return err
		case "expire":
			past := c21T0.Add(-time.Hour)
			if c.Cluster {
				return am.ApplyUpdateToken(ClusterTokenEntry{ID: id, Name: "victim", Permissions: "read,write", ExpiresAtUnixNano: past.UnixNano()})
			}
			return am.UpdateToken(ctx, id, nil, nil, nil, &past)
		}
		return fmt.Errorf("unknown kind %q", c.Kind)
	})
	var vs []*c21G
	for i := 0; i < c.Verifiers; i++ {
		vs = append(vs, s.add(fmt.Sprintf("V%d", i+1), true, func() any { return am.VerifyToken(old) }))
	}
	VerifSetSchedHook(s.hook)
	s.start()
	s.run(choose)
	VerifSetSchedHook(nil)
	res.Choices, res.Widths, res.Trace = s.choices, s.widths, s.trace
	if s.err != "" {
		res.Harness = s.err
		return res
	}
	if e, _ := mut.result.(error); e != nil {
		res.MutErr = e.Error()
	}
	for _, v := range vs {
		ti, _ := v.result.(*TokenInfo)
		res.Verifier = append(res.Verifier, c21Desc(ti))
	}

	// classification from the trace
	idx := func(ev string) int {
		for i, t := range s.trace {
			if t == ev {
				return i
			}
		}
		return -1
	}
	mUpdateDone := idx("M@invalidate:enter") // the mutation's SQL statement has run when M reaches InvalidateCache
	mInvalidated := idx("M@invalidate:exit")
	for _, v := range vs {
		if v.startAt < mut.endAt && mut.startAt < v.endAt {
			res.Overlap = true
		}
		q, ins := idx(v.name+"@verify:after-query"), idx(v.name+"@verify:before-insert")
		if q >= 0 && ins >= 0 && mUpdateDone >= 0 && mInvalidated >= 0 && q < mUpdateDone {
			// the insert itself happens when V is released from before-insert
			rel := -1
			for i := ins + 1; i < len(s.trace); i++ {
				if s.trace[i] == ">"+v.name {
					rel = i
					break
				}
			}
			if rel > mInvalidated {
				res.RaceShape = true
			}
		}
	}

	// Oracle 1: the mutation returned (without error); the old value must not
	// authenticate, on the first call (may be a miss) nor the second (hit path).
	a1 := am.VerifyToken(old)
	a2 := am.VerifyToken(old)
	res.After = []string{c21Desc(a1), c21Desc(a2)}
	if res.MutErr != "" {
		res.Harness = "mutation failed: " + res.MutErr
		return res
	}
	if a1 != nil || a2 != nil {
		res.Violation = fmt.Sprintf("old-value-authenticates-after-%s", c.Kind)
		return res
	}
	// Oracle 2: a verification that started after the mutation had returned
	// must have failed.
	for i, v := range vs {
		if v.startAt > mut.endAt {
			if ti, _ := v.result.(*TokenInfo); ti != nil {
				res.Violation = fmt.Sprintf("verification-started-after-%s-returned-succeeded(V%d)", c.Kind, i+1)
				return res
			}
		}
	}
	return res
}

func c21Account(r *c21Result) {
	verifkit.Eval()
	verifkit.Class("kind-" + r.Case.Kind)
	if r.Case.Cluster {
		verifkit.Class("mode-cluster-apply")
	} else {
		verifkit.Class("mode-direct")
	}
	verifkit.Class(fmt.Sprintf("verifiers-%d", r.Case.Verifiers))
	if r.Case.Legacy {
		verifkit.Class("legacy-row-token")
	}
	if r.Case.Warm {
		verifkit.Class("cache-warm")
	} else {
		verifkit.Class("cache-cold")
	}
	blocked := false
	for _, t := range r.Trace {
		if strings.HasSuffix(t, "~blocked-on-db-conn") {
			blocked = true
		}
		if strings.HasSuffix(t, "~blocked-on-sync") {
			verifkit.Class("released-goroutine-waits-on-another-verifier")
		}
	}
	if blocked {
		verifkit.Class("released-goroutine-blocked-on-db-connection")
	}
	if r.RaceShape {
		verifkit.Class("db-read-before-update-and-insert-after-invalidate")
	}
	if r.Overlap {
		verifkit.Class("verification-overlaps-mutation")
		verifkit.NonTrivial(r.Case.String() + "|" + strings.Join(r.Trace, " "))
		if verifkit.SampleCount() < 3 && (blocked || r.Case.Verifiers > 1) {
			verifkit.Sample(map[string]any{"case": r.Case.String(), "trace": r.Trace, "verifier_results": r.Verifier, "after": r.After})
		}
	}
}

type c21Failer interface {
	Fatalf(format string, args ...any)
}

func c21Judge(t c21Failer, r *c21Result, writeReplay bool) {
	if r.Harness != "" {
		t.Fatalf("VERIF-FAIL class=C21/harness case=%s choices=%v: %s\ntrace: %s", r.Case, r.Choices, r.Harness, strings.Join(r.Trace, " "))
	}
	if r.Violation != "" {
		if writeReplay {
			verifkit.WriteReplay("c21-schedule", r)
		}
		t.Fatalf("VERIF-FAIL class=C21/%s case=%s choices=%v verifiers=%v after=%v\ntrace: %s", r.Violation, r.Case, r.Choices, r.Verifier, r.After, strings.Join(r.Trace, " "))
	}
}

// c21Enumerate runs every schedule of the case (depth-first over the choice
// sequences). Returns the number of schedules and whether the space was
// exhausted within limit.
func c21Enumerate(t *testing.T, c c21Case, limit int) (int, bool) {
	var prefix []int
	n := 0
	diverged := false
	for {
		p := prefix
		r := c21RunSchedule(c, func(step, width int) int {
			if step < len(p) {
				return p[step]
			}
			return 0
		})
		n++
		for i := range p {
			if i >= len(r.Choices) || r.Choices[i] != p[i] {
				// The prefix did not replay (something outside the scheduler's control
				// decided differently). Never a verdict: the enumeration goes on from
				// what actually ran but is no longer claimed to be complete.
				verifkit.Class("enumeration-prefix-did-not-replay")
				diverged = true
				break
			}
		}
		c21Account(r)
		c21Judge(t, r, true)
		i := len(r.Choices) - 1
		for i >= 0 && r.Choices[i]+1 >= r.Widths[i] {
			i--
		}
		if i < 0 {
			return n, !diverged
		}
		prefix = append(append([]int(nil), r.Choices[:i]...), r.Choices[i]+1)
		if n >= limit {
			return n, false
		}
	}
}

// TestVerifC21_Enumerate: exhaustive enumeration of the schedules.
// quick: every case with 1-2 verifiers; thorough: every case with 1-3.
func TestVerifC21_Enumerate(t *testing.T) {
	maxV := verifkit.Scale(2, 3)
	cases := c21AllCases(maxV)
	shard, _ := strconv.Atoi(os.Getenv("VERIF_SHARD"))
	shards := *c21Shards
	if shards < 1 {
		shards = 1
	}
	complete := true
	total := 0
	counts := map[string]int{}
	// heaviest cases first within a shard does not matter; distribute round-robin
	for i, c := range cases {
		if i%shards != shard%shards {
			continue
		}
		if verifkit.Tier() != "thorough" && c.Legacy && c.Verifiers > 1 {
			verifkit.Class("quick-tier-left-to-sampling:" + c.String())
			continue
		}
		if verifkit.Tier() != "thorough" && c.Kind == "rotate" && !c.Cluster && c.Verifiers > 1 {
			// direct RotateToken pays a 600k-iteration PBKDF2 per schedule; the quick
			// tier enumerates it for one verifier and samples the rest
			verifkit.Class("quick-tier-left-to-sampling:" + c.String())
			continue
		}
		n, done := c21Enumerate(t, c, 2_000_000)
		counts[c.String()] = n
		total += n
		if !done {
			complete = false
		}
	}
	verifkit.Note(fmt.Sprintf("shard%d_schedules_per_case", shard), counts)
	verifkit.Note(fmt.Sprintf("shard%d_schedules_total", shard), total)
	verifkit.Note("max_verifiers_enumerated", maxV)
	if complete && verifkit.Tier() == "thorough" {
		verifkit.Exhaustive()
	}
}

// TestVerifC21_Sample: randomly drawn schedules, including the 3-verifier
// cases that the quick tier does not enumerate. Every schedule is executed
// twice and must replay identically (the scheduler's determinism is what the
// exhaustive enumeration relies on).
func TestVerifC21_Sample(t *testing.T) {
	cases := c21AllCases(3)
	rapid.Check(t, func(t *rapid.T) {
		c := rapid.SampledFrom(cases).Draw(t, "case")
		if c.Kind == "rotate" && !c.Cluster && rapid.IntRange(0, 3).Draw(t, "skip-direct-rotate") != 0 {
			// direct RotateToken pays one PBKDF2 (600k iterations) per schedule
			c.Cluster = true
		}
		draws := rapid.SliceOfN(rapid.IntRange(0, 3), 24, 24).Draw(t, "choices")
		choose := func(step, width int) int {
			if step < len(draws) {
				return draws[step] % width
			}
			return 0
		}
		r := c21RunSchedule(c, choose)
		c21Account(r)
		c21Judge(t, r, false)
		if rapid.IntRange(0, 3).Draw(t, "replay-check") == 0 && !(c.Kind == "rotate" && !c.Cluster) {
			r2 := c21RunSchedule(c, choose)
			if strings.Join(r.Trace, " ") != strings.Join(r2.Trace, " ") {
				t.Fatalf("VERIF-FAIL class=C21/harness-nondeterministic-schedule case=%s\n first: %s\nsecond: %s", c, strings.Join(r.Trace, " "), strings.Join(r2.Trace, " "))
			}
			verifkit.Class("replayed-identically")
		}
	})
}

// TestVerifC21_Replay re-runs a schedule saved by a failing enumeration
// (./vcheck replay C21 <path>).
func TestVerifC21_Replay(t *testing.T) {
	p := os.Getenv("VERIF_REPLAY_FILE")
	if !strings.HasSuffix(p, ".json") {
		t.Skip("no schedule replay file")
	}
	b, err := os.ReadFile(p)
	if err != nil {
		t.Fatalf("read replay: %v", err)
	}
	var saved c21Result
	if err := json.Unmarshal(b, &saved); err != nil {
		t.Fatalf("decode replay: %v", err)
	}
	r := c21RunSchedule(saved.Case, func(step, width int) int {
		if step < len(saved.Choices) {
			return saved.Choices[step]
		}
		return 0
	})
	t.Logf("trace: %s", strings.Join(r.Trace, " "))
	c21Judge(t, r, false)
}

// ---------------------------------------------------------------------------
// Expiry clause: a token value authenticates only if it has not expired, also
// when an entry for it was cached before the expiry. Finite table, fake clock.
// ---------------------------------------------------------------------------

type c21ExpCase struct {
	TTL      time.Duration `json:"cache_ttl"`
	Life     time.Duration `json:"expires_after"`
	Via      string        `json:"expiry_set_via"` // create | update-direct | update-cluster
	WarmAt   time.Duration `json:"warmup_verify_at"`
	ProbeAt  time.Duration `json:"probe_at"`
	HaveWarm bool          `json:"warmup"`
}

func c21RunExpiry(c c21ExpCase) (got1, got2 bool, herr string) {
	VerifSetClock(c21T0)
	defer VerifSetClock(time.Time{})
	am, closeFn, err := c21NewManager(c.TTL)
	if err != nil {
		return false, false, err.Error()
	}
	defer closeFn()
	val := fmt.Sprintf("c21-expiring-token-%08d-0123456789abcdef", c21Seq.Add(1))
	expAt := c21T0.Add(c.Life)
	var exp *time.Time
	if c.Via == "create" {
		exp = &expAt
	}
	if err := am.insertToken(c21Sha(val), tokenPrefix(val), "exp", "", "read", exp); err != nil {
		return false, false, err.Error()
	}
	var id int64
	if err := am.db.QueryRow(`SELECT id FROM api_tokens WHERE name='exp'`).Scan(&id); err != nil {
		return false, false, err.Error()
	}
	if c.HaveWarm && c.Via != "create" {
		// warm the cache while the token has no expiry yet, then set it
		if am.VerifyToken(val) == nil {
			return false, false, "token without expiry does not authenticate"
		}
	}
	switch c.Via {
	case "update-direct":
		if err := am.UpdateToken(context.Background(), id, nil, nil, nil, &expAt); err != nil {
			return false, false, err.Error()
		}
	case "update-cluster":
		if err := am.ApplyUpdateToken(ClusterTokenEntry{ID: id, Name: "exp", Permissions: "read", ExpiresAtUnixNano: expAt.UnixNano()}); err != nil {
			return false, false, err.Error()
		}
	}
	if c.HaveWarm {
		VerifSetClock(c21T0.Add(c.WarmAt))
		if am.VerifyToken(val) == nil {
			return false, false, "unexpired token does not authenticate at warm-up"
		}
	}
	VerifSetClock(c21T0.Add(c.ProbeAt))
	got1 = am.VerifyToken(val) != nil
	got2 = am.VerifyToken(val) != nil
	return got1, got2, ""
}

func c21ExpiryCases() []c21ExpCase {
	var out []c21ExpCase
	for _, ttl := range []time.Duration{30 * time.Second, 5 * time.Minute, time.Hour} {
		for _, life := range []time.Duration{10 * time.Second, 2 * time.Minute, 30 * time.Minute} {
			for _, via := range []string{"create", "update-direct", "update-cluster"} {
				warms := []time.Duration{-1, 0, life - time.Second}
				for _, w := range warms {
					probes := []time.Duration{life - time.Second, life + time.Second, life + ttl/2, life + ttl + time.Second, life + 2*time.Hour}
					for _, p := range probes {
						out = append(out, c21ExpCase{TTL: ttl, Life: life, Via: via, WarmAt: w, HaveWarm: w >= 0, ProbeAt: p})
					}
				}
			}
		}
	}
	return out
}

func TestVerifC21_Expiry(t *testing.T) {
	for _, c := range c21ExpiryCases() {
		expired := c.ProbeAt > c.Life
		// shape of the open known finding: probe after expiry while an entry cached
		// before expiry is still inside its TTL
		if c.HaveWarm && expired && c.ProbeAt < c.WarmAt+c.TTL && verifkit.Excluded(kfC21Expiry) {
			verifkit.CountExcluded(kfC21Expiry)
			continue
		}
		g1, g2, herr := c21RunExpiry(c)
		if herr != "" {
			t.Fatalf("VERIF-FAIL class=C21/harness expiry case=%+v: %s", c, herr)
		}
		verifkit.Eval()
		verifkit.Class("expiry-case")
		if c.HaveWarm && expired {
			verifkit.Class("expiry-probe-after-expiry-with-earlier-cached-verify")
			verifkit.NonTrivial(fmt.Sprintf("expiry|%+v", c))
		}
		want := !expired
		if g1 != want || g2 != want {
			b, _ := json.Marshal(c)
			t.Fatalf("VERIF-FAIL class=C21/expired-token-authenticates case=%s expired=%v authenticates: first=%v second=%v", b, expired, g1, g2)
		}
	}
	if verifkit.Tier() == "thorough" && !verifkit.Excluded(kfC21Expiry) {
		// the table itself is always enumerated completely; exhaustiveness of the
		// run is declared by TestVerifC21_Enumerate
	}
}

// Known finding: token expires in 10 s, cache TTL 5 min. Verify at t=0
// (cached), verify again at t=11 s.
func TestVerifKF_C21_expiry_cache(t *testing.T) {
	c := c21ExpCase{TTL: 5 * time.Minute, Life: 10 * time.Second, Via: "create", WarmAt: 0, HaveWarm: true, ProbeAt: 11 * time.Second}
	g1, g2, herr := c21RunExpiry(c)
	if herr != "" {
		t.Fatalf("harness: %s", herr)
	}
	verifkit.Eval()
	verifkit.KnownFinding(kfC21Expiry, g1 || g2,
		fmt.Sprintf("token expires at T0+10s, cache TTL 5m, VerifyToken at T0 -> ok (cached); VerifyToken at T0+11s -> authenticates=%v (second call %v); expected: does not authenticate", g1, g2))
}

// ---------------------------------------------------------------------------
// Sequential table on an on-disk database with real restarts: token minted by
// the current code or carried over as a legacy row (inserted without prefix,
// then the manager is restarted so start-up back-fills it) x mutation x
// delivery x cache cold/warm x verify before/after another restart.
// ---------------------------------------------------------------------------

func TestVerifC21_Sequential(t *testing.T) {
	VerifSetClock(c21T0)
	defer VerifSetClock(time.Time{})
	ctx := context.Background()
	n := 0
	for _, legacy := range []bool{false, true} {
		for _, kind := range []string{"revoke", "delete", "rotate", "expire"} {
			for _, cluster := range []bool{false, true} {
				for _, warm := range []bool{false, true} {
					for _, restartAfter := range []bool{false, true} {
						n++
						desc := fmt.Sprintf("legacy=%v kind=%s cluster=%v warm=%v restart-after=%v", legacy, kind, cluster, warm, restartAfter)
						VerifSetClock(c21T0)
						path := fmt.Sprintf("%s/seq-%d.db", t.TempDir(), n)
						am, err := NewAuthManager(path, 5*time.Minute, 100, zerolog.Nop())
						if err != nil {
							t.Fatalf("VERIF-FAIL class=C21/harness %s: %v", desc, err)
						}
						old := fmt.Sprintf("c21-seq-token-value-%08d-0123456789abcdef", c21Seq.Add(1))
						var exp *time.Time
						if kind == "expire" {
							e := c21T0.Add(time.Hour)
							exp = &e
						}
						var id int64
						if legacy {
							var e any
							if exp != nil {
								e = *exp
							}
							_, err = am.db.Exec(`INSERT INTO api_tokens (name, token_hash, description, permissions, expires_at) VALUES ('victim', ?, '', 'read,write', ?)`, c21Sha(old), e)
							if err == nil {
								// restart: start-up finds the prefix-less row and marks it legacy
								_ = am.Close()
								am, err = NewAuthManager(path, 5*time.Minute, 100, zerolog.Nop())
							}
						} else {
							err = am.insertToken(c21Sha(old), tokenPrefix(old), "victim", "", "read,write", exp)
						}
						if err == nil {
							err = am.db.QueryRow(`SELECT id FROM api_tokens WHERE name='victim'`).Scan(&id)
						}
						if err != nil {
							t.Fatalf("VERIF-FAIL class=C21/harness %s: create: %v", desc, err)
						}
						if am.VerifyToken(old) == nil {
							t.Fatalf("VERIF-FAIL class=C21/harness %s: token does not authenticate before the mutation", desc)
						}
						if !warm {
							am.InvalidateCache()
						}
						VerifSetClock(c21T0.Add(2 * time.Minute))
						switch kind {
						case "revoke":
							if cluster {
								err = am.ApplyRevokeToken(id)
							} else {
								err = am.RevokeToken(ctx, id)
							}
						case "delete":
							if cluster {
								err = am.ApplyDeleteToken(id)
							} else {
								err = am.DeleteToken(ctx, id)
							}
						case "rotate":
							if cluster {
								nv := old + "-rotated"
								err = am.ApplyRotateToken(id, c21Sha(nv), tokenPrefix(nv))
							} else {
								_, err = am.RotateToken(ctx, id)
							}
						case "expire":
							past := c21T0.Add(-time.Hour)
							if cluster {
								err = am.ApplyUpdateToken(ClusterTokenEntry{ID: id, Name: "victim", Permissions: "read,write", ExpiresAtUnixNano: past.UnixNano()})
							} else {
								err = am.UpdateToken(ctx, id, nil, nil, nil, &past)
							}
						}
						if err != nil {
							t.Fatalf("VERIF-FAIL class=C21/harness %s: mutation: %v", desc, err)
						}
						if restartAfter {
							_ = am.Close()
							am, err = NewAuthManager(path, 5*time.Minute, 100, zerolog.Nop())
							if err != nil {
								t.Fatalf("VERIF-FAIL class=C21/harness %s: restart: %v", desc, err)
							}
						}
						a1, a2 := am.VerifyToken(old), am.VerifyToken(old)
						_ = am.Close()
						verifkit.Eval()
						verifkit.Class("sequential-case")
						if legacy {
							verifkit.Class("sequential-legacy-row")
							verifkit.NonTrivial("seq|" + desc)
						}
						if a1 != nil || a2 != nil {
							t.Fatalf("VERIF-FAIL class=C21/old-value-authenticates-after-%s sequential %s: VerifyToken(old) after the mutation returned = %s, %s", kind, desc, c21Desc(a1), c21Desc(a2))
						}
					}
				}
			}
		}
	}
}

// ---------------------------------------------------------------------------
// Cache-pressure table: between the target token's authentication and its
// mutation, n OTHER distinct token values authenticate against a small token
// cache (evictions / cache restructuring must not let the target's entry
// survive the mutation's flush).
// ---------------------------------------------------------------------------

func TestVerifC21_CachePressure(t *testing.T) {
	ctx := context.Background()
	for _, kind := range []string{"revoke", "delete", "rotate", "expire"} {
		for _, cluster := range []bool{false, true} {
			for _, maxCache := range []int{2, 4, 8} {
				for _, nOthers := range []int{1, 3, 6, 12} {
					for _, reverify := range []bool{false, true} {
						if kind == "rotate" && !cluster && (maxCache == 2 || reverify) {
							continue // direct RotateToken pays a PBKDF2 per row; keep two sizes
						}
						desc := fmt.Sprintf("kind=%s cluster=%v max-cache-size=%d other-tokens=%d target-hit-again=%v", kind, cluster, maxCache, nOthers, reverify)
						VerifSetClock(c21T0)
						am, err := NewAuthManager(":memory:", 5*time.Minute, maxCache, zerolog.Nop())
						if err != nil {
							t.Fatalf("VERIF-FAIL class=C21/harness %s: %v", desc, err)
						}
						mk := func(name string) (string, int64) {
							v := fmt.Sprintf("c21-press-%s-%08d-0123456789abcdef0123", name, c21Seq.Add(1))
							var exp *time.Time
							if kind == "expire" {
								e := c21T0.Add(time.Hour)
								exp = &e
							}
							if err := am.insertToken(c21Sha(v), tokenPrefix(v), name, "", "read,write", exp); err != nil {
								t.Fatalf("VERIF-FAIL class=C21/harness %s: insert: %v", desc, err)
							}
							var id int64
							_ = am.db.QueryRow(`SELECT id FROM api_tokens WHERE name = ?`, name).Scan(&id)
							return v, id
						}
						old, id := mk("victim")
						if am.VerifyToken(old) == nil {
							t.Fatalf("VERIF-FAIL class=C21/harness %s: target does not authenticate", desc)
						}
						for i := 0; i < nOthers; i++ {
							ov, _ := mk(fmt.Sprintf("other%d", i))
							if am.VerifyToken(ov) == nil {
								t.Fatalf("VERIF-FAIL class=C21/harness %s: other token does not authenticate", desc)
							}
							if reverify && i == nOthers/2 && am.VerifyToken(old) == nil {
								t.Fatalf("VERIF-FAIL class=C21/harness %s: target stopped authenticating before the mutation", desc)
							}
						}
						VerifSetClock(c21T0.Add(time.Minute))
						switch kind {
						case "revoke":
							if cluster {
								err = am.ApplyRevokeToken(id)
							} else {
								err = am.RevokeToken(ctx, id)
							}
						case "delete":
							if cluster {
								err = am.ApplyDeleteToken(id)
							} else {
								err = am.DeleteToken(ctx, id)
							}
						case "rotate":
							if cluster {
								nv := old + "-rotated"
								err = am.ApplyRotateToken(id, c21Sha(nv), tokenPrefix(nv))
							} else {
								_, err = am.RotateToken(ctx, id)
							}
						case "expire":
							past := c21T0.Add(-time.Hour)
							if cluster {
								err = am.ApplyUpdateToken(ClusterTokenEntry{ID: id, Name: "victim", Permissions: "read,write", ExpiresAtUnixNano: past.UnixNano()})
							} else {
								err = am.UpdateToken(ctx, id, nil, nil, nil, &past)
							}
						}
						if err != nil {
							t.Fatalf("VERIF-FAIL class=C21/harness %s: mutation: %v", desc, err)
						}
						a1, a2 := am.VerifyToken(old), am.VerifyToken(old)
						_ = am.Close()
						VerifSetClock(time.Time{})
						verifkit.Eval()
						verifkit.Class("cache-pressure-case")
						verifkit.NonTrivial("press|" + desc)
						if a1 != nil || a2 != nil {
							t.Fatalf("VERIF-FAIL class=C21/old-value-authenticates-after-%s cache-pressure %s: VerifyToken(old) after the mutation returned = %s, %s", kind, desc, c21Desc(a1), c21Desc(a2))
						}
					}
				}
			}
		}
	}
}
