//go:build verif

package sql

import (
	"fmt"
	"strings"
	"testing"

	"github.com/basekick-labs/arc/internal/verifkit"
	"github.com/basekick-labs/arc/internal/verifkit/duck"
	"github.com/basekick-labs/arc/internal/verifkit/sqlgen"
	"pgregory.net/rapid"
)

// Known-finding ids (see /verif/known_findings.json); each has a generator
// exclusion that is switched on only while the finding is listed as open.
const (
	kfC15Lookalike      = "C15-unmask-lookalike"
	kfC15BackslashQuote = "C15-backslash-quote"
	kfC15QuoteInComment = "C15-quote-in-comment"
	kfC15NestedComment  = "C15-nested-comment"
)

func c15Opts() sqlgen.Opts {
	return sqlgen.Opts{
		NoLookalike:      verifkit.Excluded(kfC15Lookalike),
		NoBackslashQuote: verifkit.Excluded(kfC15BackslashQuote),
		NoQuoteInComment: verifkit.Excluded(kfC15QuoteInComment),
		NoNestedComment:  verifkit.Excluded(kfC15NestedComment),
	}
}

func c15CountExclusions(o sqlgen.Opts) {
	if o.NoLookalike {
		verifkit.CountExcluded(kfC15Lookalike)
	}
	if o.NoBackslashQuote {
		verifkit.CountExcluded(kfC15BackslashQuote)
	}
	if o.NoQuoteInComment {
		verifkit.CountExcluded(kfC15QuoteInComment)
	}
}

// c15NonTrivial applies the stated rule: >=2 quote kinds, or a comment together
// with a quoted token, or a placeholder look-alike.
func c15NonTrivial(toks []sqlgen.Tok, s string) bool {
	kinds := map[string]bool{}
	comment := false
	for _, t := range toks {
		switch t.Kind {
		case sqlgen.Str, sqlgen.EStr, sqlgen.DStr, sqlgen.Ident:
			kinds[t.Kind] = true
		case sqlgen.LComment, sqlgen.BComment:
			comment = true
		}
	}
	return len(kinds) >= 2 || (comment && len(kinds) >= 1) || strings.Contains(s, "__STR_") || strings.Contains(s, "__IDENT_")
}

// expectedMask computes, from ground truth, what MaskStringLiterals must return.
func expectedMask(toks []sqlgen.Tok) (string, []StringMask) {
	var b strings.Builder
	var masks []StringMask
	idx := 0
	idents := map[string]string{}
	for _, t := range toks {
		switch {
		case sqlgen.IsLiteral(t.Kind):
			ph := fmt.Sprintf("__STR_%d__", idx)
			idx++
			masks = append(masks, StringMask{Placeholder: ph, Original: t.Text})
			b.WriteString(ph)
		case t.Kind == sqlgen.Ident:
			ph, ok := idents[t.Text]
			if !ok {
				ph = fmt.Sprintf("__IDENT_%d__", idx)
				idx++
				idents[t.Text] = ph
				masks = append(masks, StringMask{Placeholder: ph, Original: t.Text, Identifier: true})
			}
			b.WriteString(ph)
		default:
			b.WriteString(t.Text)
		}
	}
	return b.String(), masks
}

func c15CheckGroundTruth(t *rapid.T, toks []sqlgen.Tok) {
	s := sqlgen.Join(toks)
	masked, masks := MaskStringLiterals(s, HasQuotes(s))
	wantMasked, wantMasks := expectedMask(toks)
	if masked != wantMasked {
		t.Fatalf("VERIF-FAIL class=C15/mask-boundaries\ninput:  %q\nmasked: %q\nwant:   %q", s, masked, wantMasked)
	}
	if len(masks) != len(wantMasks) {
		t.Fatalf("VERIF-FAIL class=C15/mask-count input=%q got %d masks want %d", s, len(masks), len(wantMasks))
	}
	for i := range masks {
		if masks[i] != wantMasks[i] {
			t.Fatalf("VERIF-FAIL class=C15/mask-entry input=%q mask[%d]=%+v want %+v", s, i, masks[i], wantMasks[i])
		}
	}
	names := IdentifierNames(masks)
	nIdent := 0
	seen := map[string]bool{}
	for _, tk := range toks {
		if tk.Kind != sqlgen.Ident || seen[tk.Text] {
			continue
		}
		seen[tk.Text] = true
		nIdent++
		found := false
		for _, m := range masks {
			if m.Identifier && m.Original == tk.Text {
				found = true
				if names[m.Placeholder] != tk.Value {
					t.Fatalf("VERIF-FAIL class=C15/ident-name input=%q ident %q decoded %q want %q", s, tk.Text, names[m.Placeholder], tk.Value)
				}
			}
		}
		if !found {
			t.Fatalf("VERIF-FAIL class=C15/ident-missing input=%q ident %q", s, tk.Text)
		}
	}
	if len(names) != nIdent {
		t.Fatalf("VERIF-FAIL class=C15/ident-count input=%q names=%v want %d", s, names, nIdent)
	}
	if back := UnmaskStringLiterals(masked, masks); back != s {
		t.Fatalf("VERIF-FAIL class=C15/roundtrip input=%q back=%q", s, back)
	}
}

// (a) Unmask(Mask(s)) == s for arbitrary strings over the alphabet.
func TestVerifC15_RoundTrip(t *testing.T) {
	rapid.Check(t, func(t *rapid.T) {
		o := c15Opts()
		o.NoBackslashQuote, o.NoQuoteInComment, o.NoNestedComment = false, false, false // irrelevant to round-tripping
		var s string
		if rapid.Bool().Draw(t, "soup") {
			s = sqlgen.Join(sqlgen.GenSoup(t, o))
		} else {
			// raw atom string: unbalanced quotes, stray dollars, anything
			toks := sqlgen.GenSoup(t, o)
			s = sqlgen.Join(toks)
			cut := rapid.IntRange(0, len(s)).Draw(t, "cut")
			s = s[:cut] + rapid.SampledFrom([]string{"", "'", "\"", "$", "$a$", "\\", "e'"}).Draw(t, "tailjunk") + s[cut:]
		}
		if o.NoLookalike {
			verifkit.CountExcluded(kfC15Lookalike)
			if strings.Contains(s, "__STR_") || strings.Contains(s, "__IDENT_") {
				t.Skip("lookalike produced by splice")
			}
		}
		verifkit.Eval()
		verifkit.Class("roundtrip")
		masked, masks := MaskStringLiterals(s, HasQuotes(s))
		if len(masks) >= 2 {
			verifkit.NonTrivial("rt:" + s)
		}
		if back := UnmaskStringLiterals(masked, masks); back != s {
			t.Fatalf("VERIF-FAIL class=C15/roundtrip input=%q masked=%q back=%q", s, masked, back)
		}
		// FROM-mask round trip on the masked text (its documented precondition)
		fm, fmasks := MaskFromKeywordsInFunctionBodies(masked)
		if back := UnmaskFromKeywordsInFunctionBodies(fm, fmasks); back != masked {
			t.Fatalf("VERIF-FAIL class=C15/from-roundtrip input=%q masked=%q back=%q", masked, fm, back)
		}
	})
}

// (b) masked spans == generator ground truth (free token soup).
func TestVerifC15_GroundTruthSoup(t *testing.T) {
	rapid.Check(t, func(t *rapid.T) {
		o := c15Opts()
		toks := sqlgen.GenSoup(t, o)
		c15CountExclusions(o)
		s := sqlgen.Join(toks)
		verifkit.Eval()
		verifkit.Class("soup")
		if c15NonTrivial(toks, s) {
			verifkit.NonTrivial("soup:" + s)
			if verifkit.SampleCount() < 2 {
				verifkit.Sample(map[string]any{"kind": "soup", "sql": s})
			}
		}
		c15CheckGroundTruth(t, toks)
	})
}

// (b') the same on SELECT statements whose ground truth DuckDB itself confirms:
// the values DuckDB returns are the generator's decoded literals and the column
// names are the decoded identifiers.
func TestVerifC15_DuckConfirmed(t *testing.T) {
	db, err := duck.Open()
	if err != nil {
		t.Fatalf("duckdb: %v", err)
	}
	defer db.Close()
	rejected, total := 0, 0
	rapid.Check(t, func(t *rapid.T) {
		o := c15Opts()
		toks := sqlgen.GenSelect(t, o)
		c15CountExclusions(o)
		s := sqlgen.Join(toks)
		total++
		cols, rows, err := duck.QueryStrings(db, s)
		if err != nil {
			// ground truth not confirmed: do not judge Arc on it
			rejected++
			verifkit.Class("duckdb_rejected")
			if rejected <= 3 {
				t.Logf("duckdb rejected generated statement %q: %v", s, err)
			}
			t.Skip("duckdb rejected")
		}
		var wantVals []string
		var wantCols []string // "" = no alias
		for i, tk := range toks {
			if sqlgen.IsLiteral(tk.Kind) {
				wantVals = append(wantVals, tk.Value)
				wantCols = append(wantCols, "")
				_ = i
			}
			if tk.Kind == sqlgen.Ident {
				wantCols[len(wantCols)-1] = tk.Value
			}
		}
		if len(rows) != 1 || len(rows[0]) != len(wantVals) {
			t.Fatalf("HARNESS ground truth mismatch: %q returned %v want %q", s, rows, wantVals)
		}
		for i := range wantVals {
			if rows[0][i] != wantVals[i] {
				t.Fatalf("HARNESS ground truth mismatch: %q col %d duckdb=%q generator=%q", s, i, rows[0][i], wantVals[i])
			}
			if wantCols[i] != "" && cols[i] != wantCols[i] {
				t.Fatalf("HARNESS ground truth mismatch: %q col %d name duckdb=%q generator=%q", s, i, cols[i], wantCols[i])
			}
		}
		verifkit.Eval()
		verifkit.Class("duck_confirmed")
		if c15NonTrivial(toks, s) {
			verifkit.NonTrivial("sel:" + s)
			if verifkit.SampleCount() < 4 {
				verifkit.Sample(map[string]any{"kind": "duckdb-confirmed select", "sql": s, "values": wantVals})
			}
		}
		c15CheckGroundTruth(t, toks)
	})
	verifkit.Note("duckdb_rejected_of_total", fmt.Sprintf("%d/%d", rejected, total))
}

// ---- (d) FROM keywords inside EXTRACT/SUBSTRING/TRIM/OVERLAY argument lists

type fromTok struct {
	text   string
	masked bool // ground truth: a FROM that belongs to a trigger function's own argument list
}

func genGap(t *rapid.T) string {
	return rapid.SampledFrom([]string{"", "", " ", "\n", " /* c */ ", "/*c*/", " -- x\n"}).Draw(t, "gap")
}

func genFromExpr(t *rapid.T, depth int, out *[]fromTok) {
	emit := func(s string) { *out = append(*out, fromTok{text: s}) }
	from := func(masked bool) {
		*out = append(*out, fromTok{text: rapid.SampledFrom([]string{"FROM", "from", "From", "fRoM"}).Draw(t, "fromcase"), masked: masked})
	}
	arg := func() {
		if depth < 3 && rapid.IntRange(0, 3).Draw(t, "nest") == 0 {
			genFromExpr(t, depth+1, out)
		} else {
			emit(rapid.SampledFrom([]string{"ts", "x", "1", "__STR_0__", "from_x", "xfrom", "extracted", "col"}).Draw(t, "atom"))
		}
	}
	switch rapid.IntRange(0, 7).Draw(t, "shape") {
	case 0:
		emit(rapid.SampledFrom([]string{"EXTRACT", "extract", "Extract"}).Draw(t, "fn") + genGap(t) + "(")
		emit(rapid.SampledFrom([]string{"YEAR", "hour", "epoch"}).Draw(t, "field") + " ")
		from(true)
		emit(" ")
		arg()
		emit(")")
	case 1:
		emit(rapid.SampledFrom([]string{"SUBSTRING", "substring"}).Draw(t, "fn") + genGap(t) + "(")
		arg()
		emit(" ")
		from(true)
		emit(" 1 FOR 2)")
	case 2:
		emit(rapid.SampledFrom([]string{"TRIM", "trim"}).Draw(t, "fn") + genGap(t) + "(" + rapid.SampledFrom([]string{"BOTH ", "LEADING ", "TRAILING ", ""}).Draw(t, "side") + "__STR_1__ ")
		from(true)
		emit(" ")
		arg()
		emit(")")
	case 3:
		emit(rapid.SampledFrom([]string{"OVERLAY", "overlay"}).Draw(t, "fn") + genGap(t) + "(")
		arg()
		emit(" PLACING __STR_2__ ")
		from(true)
		emit(" 2)")
	case 4:
		// ordinary function: nothing masked
		emit(rapid.SampledFrom([]string{"foo", "extracted", "my_trim", "CAST", "__IDENT_3__", "coalesce"}).Draw(t, "ofn") + "(")
		arg()
		emit(")")
	case 5:
		// scalar subquery: its FROM belongs to the subquery, never masked
		emit("(SELECT ")
		arg()
		emit(" ")
		from(false)
		emit(" " + rapid.SampledFrom([]string{"cpu", "db.mem", "t"}).Draw(t, "tbl") + ")")
	case 6:
		// trigger function whose argument is a subquery
		emit("EXTRACT(YEAR ")
		from(true)
		emit(" (SELECT ")
		arg()
		emit(" ")
		from(false)
		emit(" cpu))")
	case 7:
		emit("(")
		arg()
		emit(" + ")
		arg()
		emit(")")
	}
}

func TestVerifC15_FromMask(t *testing.T) {
	rapid.Check(t, func(t *rapid.T) {
		var toks []fromTok
		toks = append(toks, fromTok{text: "SELECT "})
		n := rapid.IntRange(1, 4).Draw(t, "nexpr")
		for i := 0; i < n; i++ {
			if i > 0 {
				toks = append(toks, fromTok{text: ", "})
			}
			genFromExpr(t, 0, &toks)
		}
		toks = append(toks, fromTok{text: " "}, fromTok{text: rapid.SampledFrom([]string{"FROM", "from"}).Draw(t, "outerfrom")}, fromTok{text: " cpu"})
		var sb, wb strings.Builder
		var wantMasks []FromMask
		k := 0
		for _, tk := range toks {
			sb.WriteString(tk.text)
			if tk.masked {
				ph := fmt.Sprintf("__FROM_MASK_%d__", k)
				k++
				wantMasks = append(wantMasks, FromMask{Placeholder: ph, Original: tk.text})
				wb.WriteString(ph)
			} else {
				wb.WriteString(tk.text)
			}
		}
		s := sb.String()
		verifkit.Eval()
		verifkit.Class("frommask")
		if k >= 1 {
			verifkit.NonTrivial("fm:" + s)
		}
		got, masks := MaskFromKeywordsInFunctionBodies(s)
		if got != wb.String() {
			t.Fatalf("VERIF-FAIL class=C15/from-mask-boundaries\ninput: %q\ngot:   %q\nwant:  %q", s, got, wb.String())
		}
		if len(masks) != len(wantMasks) {
			t.Fatalf("VERIF-FAIL class=C15/from-mask-count input=%q got %v want %v", s, masks, wantMasks)
		}
		for i := range masks {
			if masks[i] != wantMasks[i] {
				t.Fatalf("VERIF-FAIL class=C15/from-mask-entry input=%q got %v want %v", s, masks[i], wantMasks[i])
			}
		}
		if back := UnmaskFromKeywordsInFunctionBodies(got, masks); back != s {
			t.Fatalf("VERIF-FAIL class=C15/from-roundtrip input=%q back=%q", s, back)
		}
	})
}

// ---- known-finding reproductions (specific minimal inputs)

func TestVerifKF_C15_lookalike(t *testing.T) {
	inputs := []string{`""__IDENT_0__`, `'__STR_1__' 'b'`}
	rep := false
	for _, s := range inputs {
		m, masks := MaskStringLiterals(s, HasQuotes(s))
		if UnmaskStringLiterals(m, masks) != s {
			rep = true
		}
	}
	verifkit.KnownFinding(kfC15Lookalike, rep, "Unmask(Mask(s)) != s for "+inputs[0])
}

func TestVerifKF_C15_backslash_quote(t *testing.T) {
	// DuckDB: 'a\' is a complete literal (no backslash escapes in standard strings)
	s := `SELECT 'a\' AS x, 'b' AS y`
	_, masks := MaskStringLiterals(s, HasQuotes(s))
	rep := len(masks) != 2 || masks[0].Original != `'a\'`
	db, err := duck.Open()
	if err == nil {
		defer db.Close()
		_, rows, qerr := duck.QueryStrings(db, s)
		if qerr != nil || len(rows) != 1 || rows[0][0] != `a\` || rows[0][1] != "b" {
			rep = false // DuckDB does not see what the finding says it sees
		}
	}
	verifkit.KnownFinding(kfC15BackslashQuote, rep, "masker treats \\' as an escaped quote; DuckDB ends the literal")
}

func TestVerifKF_C15_quote_in_comment(t *testing.T) {
	s := "SELECT 1 -- it's\n, 'x' AS y"
	_, masks := MaskStringLiterals(s, HasQuotes(s))
	rep := !(len(masks) == 1 && masks[0].Original == "'x'")
	db, err := duck.Open()
	if err == nil {
		defer db.Close()
		_, rows, qerr := duck.QueryStrings(db, s)
		if qerr != nil || len(rows) != 1 || rows[0][1] != "x" {
			rep = false
		}
	}
	verifkit.KnownFinding(kfC15QuoteInComment, rep, "a quote inside a comment opens a literal for the masker but not for DuckDB")
}

// Native fuzz target (thorough tier): byte-level search for a round-trip failure.
func FuzzVerifC15RoundTrip(f *testing.F) {
	for _, s := range []string{"SELECT 'a' AS \"b\"", "$$x$$ $t$y$t$", "E'a\\'b' -- c\n/* d */", "'' \"\" $1 e'", "'a''b' \"c\"\"d\""} {
		f.Add(s)
	}
	noLook := verifkit.Excluded(kfC15Lookalike)
	f.Fuzz(func(t *testing.T, s string) {
		if noLook && (strings.Contains(s, "__STR_") || strings.Contains(s, "__IDENT_")) {
			return
		}
		masked, masks := MaskStringLiterals(s, HasQuotes(s))
		if back := UnmaskStringLiterals(masked, masks); back != s {
			t.Fatalf("VERIF-FAIL class=C15/roundtrip input=%q masked=%q back=%q", s, masked, back)
		}
		fm, fmasks := MaskFromKeywordsInFunctionBodies(masked)
		if back := UnmaskFromKeywordsInFunctionBodies(fm, fmasks); back != masked {
			t.Fatalf("VERIF-FAIL class=C15/from-roundtrip input=%q masked=%q back=%q", masked, fm, back)
		}
	})
}
