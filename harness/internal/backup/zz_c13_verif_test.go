//go:build verif

package backup

// C13 - backup then restore reproduces the data or reports failure.
//
// Generated storage trees (databases x measurements x hour partitions, Iceberg
// warehouse metadata, files the backup is not expected to carry) are written
// through a real LocalBackend, backed up with Manager.CreateBackup and restored
// into an EMPTY LocalBackend with Manager.RestoreBackup. Both the data storage
// and the backup storage are wrapped by a fault-injecting storage.Backend whose
// per-file read/write failures are drawn by rapid.
//
// Oracle (from the property statement):
//   * no faults: every parquet file and every Iceberg metadata file of the
//     source tree is present byte-for-byte at its original path after restore;
//   * a backup that reports success holds byte-identical copies of everything
//     it did not skip, every missing file is one whose read was made to fail,
//     and manifest.SkippedFiles records exactly how many are missing (> 0);
//   * a restore after which any file of the backup inventory is missing or
//     different must not report success (neither a nil error nor status
//     "completed").

import (
	"bytes"
	"context"
	"errors"
	"fmt"
	"io"
	"io/fs"
	"os"
	"path/filepath"
	"sort"
	"strings"
	"testing"

	"github.com/basekick-labs/arc/internal/storage"
	"github.com/basekick-labs/arc/internal/verifkit"
	"github.com/rs/zerolog"
	"pgregory.net/rapid"
)

// Known finding: restoreDataFiles logs and skips a file it could not restore and
// RestoreBackup still returns nil with status "completed".
const kfC13RestoreSkip = "C13-restore-skips-failed-file-reports-completed"

// ---------------------------------------------------------------- fault backend

var errC13Injected = errors.New("verif: injected storage fault")

// c13Backend wraps a real backend; faults are keyed by the file's original
// (data-storage relative) path, whichever storage it is being read from or written to.
type c13Backend struct {
	storage.Backend
	keyOf func(path string) string
	// fault modes: "before" (fails before the first byte) | "mid" (delivers a prefix, then fails);
	// with the suffix "-once" the fault is TRANSIENT: only the first call for that file fails,
	// an immediate retry succeeds.
	readFaults    map[string]string // key -> mode   (ReadTo / Read)
	writeFaults   map[string]string // key -> mode   (WriteReader / Write)
	listFault     bool              // List / ListObjects fail
	manifestRead  bool              // Read of <id>/manifest.json fails
	manifestWrite bool              // Write of <id>/manifest.json fails
	hits          map[string]int    // "read:<key>" / "write:<key>" -> times a fault fired
}

func (b *c13Backend) hit(k string) {
	if b.hits == nil {
		b.hits = map[string]int{}
	}
	b.hits[k]++
}

// fires reports whether the fault configured for (kind,key) fires on this call
// and returns its base mode ("before" | "mid").
func (b *c13Backend) fires(faults map[string]string, kind, key string) (string, bool) {
	mode, ok := faults[key]
	if !ok {
		return "", false
	}
	if strings.HasSuffix(mode, "-once") {
		if b.hits[kind+":"+key] > 0 {
			return "", false // transient: already failed once, now it works
		}
		mode = strings.TrimSuffix(mode, "-once")
	}
	b.hit(kind + ":" + key)
	return mode, true
}

func (b *c13Backend) ReadTo(ctx context.Context, path string, w io.Writer) error {
	if mode, ok := b.fires(b.readFaults, "read", b.keyOf(path)); ok {
		if mode == "mid" {
			// the stream breaks after some bytes have already reached the writer
			var buf bytes.Buffer
			if err := b.Backend.ReadTo(ctx, path, &buf); err == nil && buf.Len() > 0 {
				k := buf.Len() / 2
				if k == 0 {
					k = 1
				}
				_, _ = w.Write(buf.Bytes()[:k])
			}
		}
		return fmt.Errorf("read %s: %w", path, errC13Injected)
	}
	return b.Backend.ReadTo(ctx, path, w)
}

func (b *c13Backend) Read(ctx context.Context, path string) ([]byte, error) {
	if b.manifestRead && strings.HasSuffix(path, "/manifest.json") {
		b.hit("read:MANIFEST")
		return nil, fmt.Errorf("read %s: %w", path, errC13Injected)
	}
	if _, ok := b.fires(b.readFaults, "read", b.keyOf(path)); ok {
		return nil, fmt.Errorf("read %s: %w", path, errC13Injected)
	}
	return b.Backend.Read(ctx, path)
}

type c13FailingReader struct {
	r io.Reader
	n int64
}

func (f *c13FailingReader) Read(p []byte) (int, error) {
	if f.n <= 0 {
		return 0, errC13Injected
	}
	if int64(len(p)) > f.n {
		p = p[:f.n]
	}
	k, err := f.r.Read(p)
	f.n -= int64(k)
	return k, err
}

func (b *c13Backend) WriteReader(ctx context.Context, path string, r io.Reader, size int64) error {
	if mode, ok := b.fires(b.writeFaults, "write", b.keyOf(path)); ok {
		if mode == "mid" {
			// the transfer dies half way: the real backend sees a failing reader
			err := b.Backend.WriteReader(ctx, path, &c13FailingReader{r: r, n: size / 2}, size)
			if err == nil {
				err = errC13Injected
			}
			return err
		}
		return fmt.Errorf("write %s: %w", path, errC13Injected)
	}
	return b.Backend.WriteReader(ctx, path, r, size)
}

func (b *c13Backend) Write(ctx context.Context, path string, data []byte) error {
	if b.manifestWrite && strings.HasSuffix(path, "/manifest.json") {
		b.hit("write:MANIFEST")
		return fmt.Errorf("write %s: %w", path, errC13Injected)
	}
	if _, ok := b.fires(b.writeFaults, "write", b.keyOf(path)); ok {
		return fmt.Errorf("write %s: %w", path, errC13Injected)
	}
	return b.Backend.Write(ctx, path, data)
}

func (b *c13Backend) List(ctx context.Context, prefix string) ([]string, error) {
	if b.listFault {
		b.hit("list")
		return nil, fmt.Errorf("list %s: %w", prefix, errC13Injected)
	}
	return b.Backend.List(ctx, prefix)
}

func (b *c13Backend) ListObjects(ctx context.Context, prefix string) ([]storage.ObjectInfo, error) {
	if b.listFault {
		b.hit("list")
		return nil, fmt.Errorf("list %s: %w", prefix, errC13Injected)
	}
	return b.Backend.(storage.ObjectLister).ListObjects(ctx, prefix)
}

func c13DataKey(p string) string { return filepath.ToSlash(p) }

// c13BackupKey maps "<backup-id>/data/<rel>" to <rel>.
func c13BackupKey(p string) string {
	p = filepath.ToSlash(p)
	if i := strings.Index(p, "/data/"); i >= 0 {
		return p[i+len("/data/"):]
	}
	return "\x00" + p
}

// ---------------------------------------------------------------- tree generator

type c13File struct {
	Path string `json:"path"`
	Kind string `json:"kind"` // data | iceberg-meta | other
	Size int    `json:"size"`
	data []byte
}

var (
	c13DBs   = []string{"prod", "metrics_eu", "db-1", "default", "telemetry"}
	c13Meas  = []string{"cpu", "mem", "http_requests", "disk-io", "metadata", "m1"}
	c13Sizes = []int{0, 1, 17, 300, 2048, 70001}
)

func c13Bytes(t *rapid.T, label string) []byte {
	n := rapid.SampledFrom(c13Sizes).Draw(t, label+"Size")
	seed := rapid.Uint32().Draw(t, label+"Seed")
	b := make([]byte, n)
	x := seed | 1
	for i := range b {
		x = x*1664525 + 1013904223
		b[i] = byte(x >> 24)
	}
	return b
}

func c13GenTree(t *rapid.T) []c13File {
	var files []c13File
	seen := map[string]bool{}
	add := func(p, kind string, label string) {
		if seen[p] {
			return
		}
		seen[p] = true
		b := c13Bytes(t, label)
		files = append(files, c13File{Path: p, Kind: kind, Size: len(b), data: b})
	}
	// Unusual stores: nothing at all / only files a backup does not carry / Iceberg table
	// metadata but not a single parquet file (retention aged the data out, or the table is new).
	shape := rapid.SampledFrom([]string{"normal", "normal", "normal", "normal", "normal", "normal", "metadata-only", "metadata-only", "empty", "other-only"}).Draw(t, "treeShape")
	switch shape {
	case "empty":
		return nil
	case "other-only":
		add("prod/cpu/2025/01/01/00/_SUCCESS", "other", "other")
		add("prod/cpu/notes.txt", "other", "other")
		return files
	case "metadata-only":
		nT := rapid.IntRange(1, 3).Draw(t, "nTables")
		for i := 0; i < nT; i++ {
			tbl := fmt.Sprintf("%s_%s.db/%s", rapid.SampledFrom([]string{"arc", "lake"}).Draw(t, "ns"),
				rapid.SampledFrom(c13DBs).Draw(t, "db"), rapid.SampledFrom(c13Meas).Draw(t, "meas"))
			add(tbl+"/metadata/00000-5f2c.metadata.json", "iceberg-meta", "ice")
			if rapid.Bool().Draw(t, "iceMore") {
				add(tbl+"/metadata/v1.metadata.json", "iceberg-meta", "ice")
				add(tbl+"/metadata/version-hint.text", "iceberg-meta", "ice")
				add(tbl+"/metadata/snap-812-1-aa.avro", "iceberg-meta", "ice")
			}
		}
		sort.Slice(files, func(i, k int) bool { return files[i].Path < files[k].Path })
		return files
	}
	big := rapid.IntRange(0, 2).Draw(t, "bigTree") == 0 // >= 12 files so that one skip stays under the 10% ceiling
	// Sizes are kept moderate: every file costs ~6 directory levels in three trees.
	// Small trees: 1-3 databases x 1-2 measurements x 1-2 hours x 1-2 files;
	// big trees: 1-2 databases x 1-2 measurements x 3-5 hours.
	nDB := rapid.IntRange(1, 3).Draw(t, "nDB")
	maxMeas, maxFiles := 2, 2
	if big && nDB > 2 {
		nDB = 2
	}
	for d := 0; d < nDB; d++ {
		db := rapid.SampledFrom(c13DBs).Draw(t, "db")
		nM := rapid.IntRange(1, maxMeas).Draw(t, "nMeas")
		for m := 0; m < nM; m++ {
			meas := rapid.SampledFrom(c13Meas).Draw(t, "meas")
			nH := rapid.IntRange(1, 2).Draw(t, "nHours")
			if big {
				nH = rapid.IntRange(3, 5).Draw(t, "nHoursBig")
			}
			for h := 0; h < nH; h++ {
				dir := fmt.Sprintf("%s/%s/2025/%02d/%02d/%02d", db, meas,
					rapid.SampledFrom([]int{1, 12}).Draw(t, "mon"), rapid.SampledFrom([]int{1, 28}).Draw(t, "day"), rapid.IntRange(0, 23).Draw(t, "hour"))
				nF := rapid.IntRange(1, maxFiles).Draw(t, "nFiles")
				for f := 0; f < nF; f++ {
					add(fmt.Sprintf("%s/%s_%d_%d.parquet", dir, meas, 1735689600+h*3600, f), "data", "file")
				}
				if rapid.IntRange(0, 7).Draw(t, "otherFile") == 0 {
					add(dir+"/"+rapid.SampledFrom([]string{"_SUCCESS", "notes.txt", "x.parquet.part", ".hidden.parquet", "manifest.json"}).Draw(t, "otherName"), "other", "other")
				}
			}
			// compacted daily partition
			if rapid.IntRange(0, 3).Draw(t, "daily") == 0 {
				add(fmt.Sprintf("%s/%s/2025/01/02/%s_daily_compacted.parquet", db, meas, meas), "data", "file")
			}
			// Iceberg table written by the exporter: {ns}_{db}.db/{measurement}/metadata/* + data/*
			if rapid.IntRange(0, 3).Draw(t, "iceberg") == 0 {
				tbl := fmt.Sprintf("%s_%s.db/%s", rapid.SampledFrom([]string{"arc", "lake"}).Draw(t, "ns"), db, meas)
				add(tbl+"/metadata/00000-5f2c.metadata.json", "iceberg-meta", "ice")
				add(tbl+"/metadata/v1.metadata.json", "iceberg-meta", "ice")
				add(tbl+"/metadata/version-hint.text", "iceberg-meta", "ice")
				if rapid.Bool().Draw(t, "iceAvro") {
					add(tbl+"/metadata/snap-812-1-aa.avro", "iceberg-meta", "ice")
					add(tbl+"/metadata/aa-m0.avro", "iceberg-meta", "ice")
				}
				if rapid.Bool().Draw(t, "icePuffin") {
					add(tbl+"/metadata/stats-1.puffin", "iceberg-meta", "ice")
				}
				add(tbl+"/data/00000-0-data.parquet", "data", "file")
			}
		}
	}
	sort.Slice(files, func(i, k int) bool { return files[i].Path < files[k].Path })
	return files
}

// c13Subset draws up to max distinct carried files (never "other" files) with a fault mode.
func c13Subset(t *rapid.T, carried []c13File, max int, label string) map[string]string {
	out := map[string]string{}
	if max <= 0 || len(carried) == 0 {
		return out
	}
	n := rapid.IntRange(1, max).Draw(t, label+"N")
	for i := 0; i < n; i++ {
		f := carried[rapid.IntRange(0, len(carried)-1).Draw(t, label+"Idx")]
		out[f.Path] = rapid.SampledFrom([]string{"before", "mid", "mid-once", "mid", "mid-once", "before-once"}).Draw(t, label+"Mode")
	}
	return out
}

type c13Plan struct {
	Files              []c13File         `json:"files"`
	BackupReadFaults   map[string]string `json:"backup_read_faults,omitempty"`
	BackupWriteFaults  map[string]string `json:"backup_write_faults,omitempty"`
	BackupListFault    bool              `json:"backup_list_fault,omitempty"`
	ManifestWriteFault bool              `json:"manifest_write_fault,omitempty"`
	RestoreReadFaults  map[string]string `json:"restore_read_faults,omitempty"`
	RestoreWriteFaults map[string]string `json:"restore_write_faults,omitempty"`
	RestoreListFault   bool              `json:"restore_list_fault,omitempty"`
	ManifestReadFault  bool              `json:"manifest_read_fault,omitempty"`
}

func (p *c13Plan) key() string {
	var b strings.Builder
	for _, f := range p.Files {
		fmt.Fprintf(&b, "%s:%d;", f.Path, f.Size)
	}
	fmt.Fprintf(&b, "|%v|%v|%v|%v|%v|%v|%v|%v", p.BackupReadFaults, p.BackupWriteFaults, p.BackupListFault, p.ManifestWriteFault,
		p.RestoreReadFaults, p.RestoreWriteFaults, p.RestoreListFault, p.ManifestReadFault)
	return b.String()
}

func c13Carried(files []c13File) []c13File {
	var out []c13File
	for _, f := range files {
		if f.Kind != "other" {
			out = append(out, f)
		}
	}
	return out
}

func c13GenPlan(t *rapid.T) *c13Plan {
	p := &c13Plan{Files: c13GenTree(t)}
	carried := c13Carried(p.Files)
	switch rapid.IntRange(0, 9).Draw(t, "backupFaults") {
	case 0, 1, 2, 3: // none
	case 4, 5, 6: // few unreadable files (at most 10% so that the backup may complete as "incomplete")
		max := len(carried) / 10
		if max < 1 {
			max = 1
		}
		p.BackupReadFaults = c13Subset(t, carried, max, "bakRead")
	case 7: // many unreadable files
		p.BackupReadFaults = c13Subset(t, carried, len(carried), "bakReadMany")
	case 8:
		p.BackupWriteFaults = c13Subset(t, carried, 2, "bakWrite")
	case 9:
		if rapid.Bool().Draw(t, "bakListOrManifest") {
			p.BackupListFault = true
		} else {
			p.ManifestWriteFault = true
		}
	}
	switch rapid.IntRange(0, 9).Draw(t, "restoreFaults") {
	case 0, 1, 2, 3: // none
	case 4, 5, 6, 7:
		if verifkit.Excluded(kfC13RestoreSkip) {
			// shape of the open known finding: any per-file failure during restore
			verifkit.CountExcluded(kfC13RestoreSkip)
			break
		}
		if rapid.Bool().Draw(t, "restoreSide") {
			p.RestoreReadFaults = c13Subset(t, carried, 3, "resRead")
		} else {
			p.RestoreWriteFaults = c13Subset(t, carried, 3, "resWrite")
		}
	case 8:
		p.RestoreListFault = true
	case 9:
		p.ManifestReadFault = true
	}
	return p
}

// ---------------------------------------------------------------- execution + oracle

// c13ReadTree returns every regular file below dir, keyed by slash-relative path.
func c13ReadTree(dir string) (map[string][]byte, error) {
	out := map[string][]byte{}
	err := filepath.WalkDir(dir, func(p string, d fs.DirEntry, err error) error {
		if err != nil {
			if os.IsNotExist(err) {
				return nil
			}
			return err
		}
		if d.IsDir() {
			return nil
		}
		b, err := os.ReadFile(p)
		if err != nil {
			return err
		}
		rel, _ := filepath.Rel(dir, p)
		out[filepath.ToSlash(rel)] = b
		return nil
	})
	return out, err
}

type c13Outcome struct {
	BackupErr       string   `json:"backup_err,omitempty"`
	BackupStatus    string   `json:"backup_status"`
	SkippedRecorded int64    `json:"skipped_recorded"`
	MissingInBackup []string `json:"missing_in_backup,omitempty"`
	RestoreErr      string   `json:"restore_err,omitempty"`
	RestoreStatus   string   `json:"restore_status,omitempty"`
	Unrestored      []string `json:"unrestored,omitempty"`
}

type c13Failer interface {
	Fatalf(format string, args ...any)
}

// c13RunPlan executes backup + restore for a plan and applies the oracle. It
// returns the outcome; violations are reported through t.Fatalf.
func c13RunPlan(t c13Failer, base string, p *c13Plan) c13Outcome {
	ctx := context.Background()
	var out c13Outcome
	srcDir, bakDir, dstDir := filepath.Join(base, "src"), filepath.Join(base, "backups"), filepath.Join(base, "dst")
	for _, d := range []string{srcDir, bakDir, dstDir, filepath.Join(base, "tmp")} {
		if err := os.MkdirAll(d, 0o700); err != nil {
			t.Fatalf("setup: %v", err)
		}
	}
	src, err := storage.NewLocalBackend(srcDir, zerolog.Nop())
	if err != nil {
		t.Fatalf("setup: %v", err)
	}
	want := map[string][]byte{} // every file the backup must carry
	for _, f := range p.Files {
		// the tree is produced by the real backend, as the ingest/compaction/export paths do
		if err := src.Write(ctx, f.Path, f.data); err != nil {
			t.Fatalf("setup: write %s: %v", f.Path, err)
		}
		if f.Kind != "other" {
			want[f.Path] = f.data
		}
	}
	anyBackupFault := len(p.BackupReadFaults)+len(p.BackupWriteFaults) > 0 || p.BackupListFault || p.ManifestWriteFault
	anyRestoreFault := len(p.RestoreReadFaults)+len(p.RestoreWriteFaults) > 0 || p.RestoreListFault || p.ManifestReadFault

	// ---- backup
	fsrc := &c13Backend{Backend: src, keyOf: c13DataKey, readFaults: p.BackupReadFaults, listFault: p.BackupListFault}
	m1, err := NewManager(&ManagerConfig{DataStorage: fsrc, BackupPath: bakDir, Logger: zerolog.Nop()})
	if err != nil {
		t.Fatalf("setup: %v", err)
	}
	m1.backupStorage = &c13Backend{Backend: m1.backupStorage, keyOf: c13BackupKey, writeFaults: p.BackupWriteFaults, manifestWrite: p.ManifestWriteFault}
	bres, berr := m1.CreateBackup(ctx, BackupOptions{})
	bprog := m1.GetProgress()
	if bprog == nil {
		t.Fatalf("VERIF-FAIL class=C13/no-progress backup published no progress")
	}
	out.BackupStatus = bprog.Status
	if berr != nil {
		out.BackupErr = berr.Error()
		verifkit.Class("backup-failed")
		if bprog.Status == "completed" {
			t.Fatalf("VERIF-FAIL class=C13/backup-error-but-status-completed err=%v", berr)
		}
		if !anyBackupFault {
			t.Fatalf("VERIF-FAIL class=C13/backup-failed-without-fault err=%v", berr)
		}
		return out // nothing completed to restore
	}
	if bprog.Status != "completed" {
		t.Fatalf("VERIF-FAIL class=C13/backup-status-inconsistent CreateBackup returned nil but status=%q", bprog.Status)
	}
	verifkit.Class("backup-completed")
	id := bres.Manifest.BackupID
	inBackup, err := c13ReadTree(filepath.Join(bakDir, id, "data"))
	if err != nil {
		t.Fatalf("harness: read backup: %v", err)
	}
	for rel, b := range inBackup {
		if strings.HasSuffix(rel, ".part") {
			continue
		}
		if w, ok := want[rel]; ok && !bytes.Equal(w, b) {
			t.Fatalf("VERIF-FAIL class=C13/backup-copy-differs file=%s backup holds %d bytes, source %d bytes", rel, len(b), len(w))
		}
	}
	for rel := range want {
		if _, ok := inBackup[rel]; !ok {
			out.MissingInBackup = append(out.MissingInBackup, rel)
			if _, faulted := p.BackupReadFaults[rel]; !faulted {
				t.Fatalf("VERIF-FAIL class=C13/backup-dropped-file file=%s is not in the completed backup although reading it never failed", rel)
			}
		}
	}
	sort.Strings(out.MissingInBackup)
	raw, err := os.ReadFile(filepath.Join(bakDir, id, "manifest.json"))
	if err != nil {
		t.Fatalf("VERIF-FAIL class=C13/no-manifest completed backup has no manifest: %v", err)
	}
	stored, err := UnmarshalManifest(raw)
	if err != nil {
		t.Fatalf("VERIF-FAIL class=C13/bad-manifest %v", err)
	}
	out.SkippedRecorded = stored.SkippedFiles
	if len(out.MissingInBackup) > 0 {
		verifkit.Class("backup-completed-with-skips")
		if stored.SkippedFiles == 0 || bres.Manifest.SkippedFiles == 0 {
			t.Fatalf("VERIF-FAIL class=C13/incomplete-backup-not-recorded %d unreadable files are missing from the backup (%v) but manifest.skipped_files=%d (returned manifest %d)",
				len(out.MissingInBackup), out.MissingInBackup, stored.SkippedFiles, bres.Manifest.SkippedFiles)
		}
	}
	if stored.SkippedFiles != int64(len(out.MissingInBackup)) {
		t.Fatalf("VERIF-FAIL class=C13/skipped-count-wrong manifest.skipped_files=%d but %d files are missing from the backup (%v)",
			stored.SkippedFiles, len(out.MissingInBackup), out.MissingInBackup)
	}

	// ---- restore into EMPTY storage
	dst, err := storage.NewLocalBackend(dstDir, zerolog.Nop())
	if err != nil {
		t.Fatalf("setup: %v", err)
	}
	fdst := &c13Backend{Backend: dst, keyOf: c13DataKey, writeFaults: p.RestoreWriteFaults}
	m2, err := NewManager(&ManagerConfig{DataStorage: fdst, BackupPath: bakDir, Logger: zerolog.Nop()})
	if err != nil {
		t.Fatalf("setup: %v", err)
	}
	m2.backupStorage = &c13Backend{Backend: m2.backupStorage, keyOf: c13BackupKey, readFaults: p.RestoreReadFaults,
		listFault: p.RestoreListFault, manifestRead: p.ManifestReadFault}
	_, rerr := m2.RestoreBackup(ctx, RestoreOptions{BackupID: id, RestoreData: true})
	rprog := m2.GetProgress()
	if rprog == nil {
		t.Fatalf("VERIF-FAIL class=C13/no-progress restore published no progress")
	}
	out.RestoreStatus = rprog.Status
	if rerr != nil {
		out.RestoreErr = rerr.Error()
	}
	restored, err := c13ReadTree(dstDir)
	if err != nil {
		t.Fatalf("harness: read restored tree: %v", err)
	}
	// inventory = what the backup physically holds
	for rel, b := range inBackup {
		if strings.HasSuffix(rel, ".part") {
			continue
		}
		if got, ok := restored[rel]; !ok || !bytes.Equal(got, b) {
			out.Unrestored = append(out.Unrestored, rel)
		}
	}
	sort.Strings(out.Unrestored)
	reportsSuccess := rerr == nil || rprog.Status == "completed"
	if reportsSuccess {
		verifkit.Class("restore-reported-success")
	} else {
		verifkit.Class("restore-reported-failure")
	}
	if len(out.Unrestored) > 0 && reportsSuccess {
		t.Fatalf("VERIF-FAIL class=C13/restore-incomplete-but-reported-success %d of %d backed-up files are missing or different after restore (%v) yet RestoreBackup err=%v status=%q",
			len(out.Unrestored), len(inBackup), out.Unrestored, rerr, rprog.Status)
	}
	if (rerr == nil) != (rprog.Status == "completed") {
		t.Fatalf("VERIF-FAIL class=C13/restore-status-inconsistent err=%v status=%q", rerr, rprog.Status)
	}
	if !anyRestoreFault {
		if !reportsSuccess {
			t.Fatalf("VERIF-FAIL class=C13/restore-failed-without-fault err=%v status=%q", rerr, rprog.Status)
		}
		if !anyBackupFault {
			// the plain round trip: the whole carried tree, byte for byte, at the original paths
			for rel, w := range want {
				if got, ok := restored[rel]; !ok {
					t.Fatalf("VERIF-FAIL class=C13/roundtrip-file-missing %s (kind %s) is absent after backup+restore", rel, c13KindOf(p, rel))
				} else if !bytes.Equal(got, w) {
					t.Fatalf("VERIF-FAIL class=C13/roundtrip-content-differs %s: %d bytes restored, %d original", rel, len(got), len(w))
				}
			}
			verifkit.Class("roundtrip-identical")
		}
	}
	return out
}

func c13KindOf(p *c13Plan, rel string) string {
	for _, f := range p.Files {
		if f.Path == rel {
			return f.Kind
		}
	}
	return "?"
}

func TestVerifC13_BackupRestore(t *testing.T) {
	base0 := t.TempDir()
	caseNo := 0
	rapid.Check(t, func(t *rapid.T) {
		caseNo++
		base := filepath.Join(base0, fmt.Sprintf("c%d", caseNo))
		if err := os.Mkdir(base, 0o700); err != nil {
			t.Fatalf("setup: %v", err)
		}
		defer os.RemoveAll(base)
		p := c13GenPlan(t)
		verifkit.Eval()
		nFaults := len(p.BackupReadFaults) + len(p.BackupWriteFaults) + len(p.RestoreReadFaults) + len(p.RestoreWriteFaults)
		switch {
		case nFaults > 0:
			verifkit.Class("per-file-fault")
			verifkit.NonTrivial(p.key())
			if verifkit.SampleCount() < 3 {
				verifkit.Sample(map[string]any{"files": len(p.Files), "backup_read_faults": p.BackupReadFaults, "backup_write_faults": p.BackupWriteFaults,
					"restore_read_faults": p.RestoreReadFaults, "restore_write_faults": p.RestoreWriteFaults})
			}
		case p.BackupListFault || p.ManifestWriteFault || p.RestoreListFault || p.ManifestReadFault:
			verifkit.Class("listing-or-manifest-fault")
		default:
			verifkit.Class("no-fault")
		}
		hasIce := false
		for _, f := range p.Files {
			if f.Kind == "iceberg-meta" {
				hasIce = true
			}
		}
		if hasIce {
			verifkit.Class("tree-with-iceberg-metadata")
		}
		nParquet := 0
		for _, f := range p.Files {
			if f.Kind == "data" {
				nParquet++
			}
		}
		switch {
		case len(c13Carried(p.Files)) == 0:
			verifkit.Class("tree-with-nothing-to-back-up")
		case nParquet == 0:
			verifkit.Class("tree-iceberg-metadata-but-no-parquet")
		}
		for _, m := range p.BackupReadFaults {
			if m == "mid-once" {
				verifkit.Class("backup-transient-mid-stream-read-fault")
				break
			}
		}
		if len(c13Carried(p.Files)) >= 10 {
			verifkit.Class("tree>=10-files")
		}
		c13RunPlan(t, base, p)
	})
}

type c13Recorder struct {
	failed string
}

type c13Abort struct{}

func (r *c13Recorder) Fatalf(format string, args ...any) {
	r.failed = fmt.Sprintf(format, args...)
	panic(c13Abort{})
}

// Reproduction of the open known finding with its minimal input: one data file,
// fault-free backup, the restore's write of that file fails -> RestoreBackup
// returns nil and status "completed" with the file absent.
func TestVerifKF_C13_restore_skip(t *testing.T) {
	f := c13File{Path: "prod/cpu/2025/01/01/00/cpu_1735689600_0.parquet", Kind: "data", Size: 17, data: []byte("seventeen bytes!!")}
	for _, plan := range []*c13Plan{
		{Files: []c13File{f}, RestoreWriteFaults: map[string]string{f.Path: "before"}},
		{Files: []c13File{f}, RestoreReadFaults: map[string]string{f.Path: "before"}},
	} {
		rec := &c13Recorder{}
		func() {
			defer func() {
				if r := recover(); r != nil {
					if _, ok := r.(c13Abort); !ok {
						panic(r)
					}
				}
			}()
			c13RunPlan(rec, t.TempDir(), plan)
		}()
		reproduced := strings.Contains(rec.failed, "class=C13/restore-incomplete-but-reported-success")
		t.Logf("reproduced=%v: %s", reproduced, rec.failed)
		verifkit.KnownFinding(kfC13RestoreSkip, reproduced, rec.failed)
	}
}
