#!/usr/bin/env python3
"""C05 overlay generator (kind C iii): extract the WAL/ArrowBuffer startup wiring and the
startup recovery call out of main() of the CURRENT cmd/arc/main.go into a callable function

    func verifC05Startup(cfg *config.Config, storageBackend storage.Backend,
                         shutdownCoordinator *shutdown.Coordinator) (*wal.Writer, *ingest.ArrowBuffer)

The body is the verbatim source text between two anchor comments, so a change to that
wiring in /repo (options passed to RecoverWithOptions, a flush added after recovery, a
different SkipActiveFile) is what the C05 harness runs. One line is added after the
callbacks are created: they are passed through verifC05Observe (defined by the harness),
which only observes (crash-point snapshots) and calls the real callback.

A second function, verifC05MaintenanceTick(cfg, arrowBuffer, walWriter, recoveryCallback,
columnarCallback), is the verbatim body of `case <-ticker.C:` of the periodic WAL
maintenance goroutine that follows, preceded by its safeAge computation.

usage: c05_startup.py <repo> <outdir>      prints: OVERLAY <repo-relative-dst> <abs-src>
Exits non-zero when an anchor is missing or ambiguous (fail closed).
"""
import os
import re
import sys

START = "// Initialize WAL writer (if enabled)"
END = "// Start periodic WAL maintenance goroutine."
REQUIRED = [
    "wal.NewWriter(&wal.WriterConfig{",
    "ingest.NewArrowBuffer(&cfg.Ingest, storageBackend,",
    "arrowBuffer.SetWAL(walWriter)",
    "createWALRecoveryCallback(arrowBuffer,",
    "walRecovery.RecoverWithOptions(",
    "if walRecovery != nil {",
]
HOOK_RE = re.compile(r"^\s*columnarCallback := createColumnarRecoveryCallback\(arrowBuffer, .*\)\s*$")
IMPORTS = {
    "context": '"context"',
    "time": '"time"',
    "config": '"github.com/basekick-labs/arc/internal/config"',
    "ingest": '"github.com/basekick-labs/arc/internal/ingest"',
    "logger": '"github.com/basekick-labs/arc/internal/logger"',
    "metrics": '"github.com/basekick-labs/arc/internal/metrics"',
    "shutdown": '"github.com/basekick-labs/arc/internal/shutdown"',
    "storage": '"github.com/basekick-labs/arc/internal/storage"',
    "wal": '"github.com/basekick-labs/arc/internal/wal"',
    "log": '"github.com/rs/zerolog/log"',
}


def die(msg):
    print("c05_startup.py: " + msg, file=sys.stderr)
    sys.exit(3)


def strip_code(line):
    """drop string literals and // comments (good enough for brace counting in this block)"""
    line = re.sub(r'"(\\.|[^"\\])*"', '""', line)
    line = re.sub(r"`[^`]*`", "``", line)
    return line.split("//", 1)[0]


def main():
    if len(sys.argv) != 3:
        die("usage: c05_startup.py <repo> <outdir>")
    repo, outdir = sys.argv[1], sys.argv[2]
    path = os.path.join(repo, "cmd/arc/main.go")
    try:
        lines = open(path).read().split("\n")
    except OSError as e:
        die("cannot read %s: %s" % (path, e))
    starts = [i for i, l in enumerate(lines) if START in l]
    ends = [i for i, l in enumerate(lines) if END in l]
    if len(starts) != 1 or len(ends) != 1 or starts[0] >= ends[0]:
        die("anchor comments not found exactly once / in order: start=%s end=%s" % (starts, ends))
    block = lines[starts[0]:ends[0]]
    text = "\n".join(block)
    for r in REQUIRED:
        if text.count(r) != 1:
            die("required statement %r occurs %d times in the extracted block (expected 1)" % (r, text.count(r)))
    hooks = [i for i, l in enumerate(block) if HOOK_RE.match(l)]
    if len(hooks) != 1:
        die("callback creation line for the observer hook not found exactly once")
    indent = re.match(r"^\s*", block[hooks[0]]).group(0)
    block.insert(hooks[0] + 1, indent + "recoveryCallback, columnarCallback = verifC05Observe(recoveryCallback, columnarCallback) // added by c05_startup.py")
    depth = 0
    for l in block:
        s = strip_code(l)
        depth += s.count("{") - s.count("}")
        if depth < 0:
            die("extracted block closes a brace it did not open")
    if depth != 1:
        die("expected the block to end inside exactly one open brace (if walRecovery != nil), got depth %d" % depth)
    # ---- second function: one tick of the periodic WAL maintenance goroutine
    tail = lines[ends[0]:]

    def first(pattern, what):
        idx = [i for i, l in enumerate(tail) if re.search(pattern, strip_code(l))]
        if not idx:
            die("maintenance goroutine: %s not found after the end anchor" % what)
        return idx[0]

    def until_balanced(start):
        """lines from start until the brace depth opened on/after start returns to 0"""
        out, d, opened = [], 0, False
        for l in tail[start:]:
            sc = strip_code(l)
            d += sc.count("{") - sc.count("}")
            opened = opened or "{" in sc
            out.append(l)
            if opened and d == 0:
                return out
            if d < 0:
                break
        die("maintenance goroutine: unbalanced block at line %d" % (ends[0] + start + 1))

    i_safe = first(r"^\s*safeAge := ", "safeAge computation")
    safe_lines = [tail[i_safe]]
    j = i_safe + 1
    while j < len(tail) and not tail[j].strip():
        j += 1
    if not re.match(r"^\s*if safeAge <", tail[j]):
        die("maintenance goroutine: 'if safeAge <' clamp does not follow the safeAge computation")
    safe_lines += until_balanced(j)
    i_log = first(r"^\s*walLogger := logger\.Get\(", "walLogger")
    i_case = first(r"^\s*case <-ticker\.C:\s*$", "case <-ticker.C:")
    if not (i_safe < i_log < i_case and i_case - i_safe < 40):
        die("maintenance goroutine: anchors out of order / too far apart (safeAge %d, walLogger %d, ticker case %d)" % (i_safe, i_log, i_case))
    body, d = [], 0
    for l in tail[i_case + 1:]:
        sc = strip_code(l)
        if d == 0 and re.match(r"^\s*(case\b.*:|default:)\s*$", sc):
            break
        d += sc.count("{") - sc.count("}")
        if d < 0:
            break
        body.append(l)
    else:
        die("maintenance goroutine: end of the ticker case not found")
    btext = "\n".join(body)
    for r in ("arrowBuffer.HasFlushFailure()", "walWriter.PurgeOlderThan(safeAge)"):
        if r not in btext:
            die("maintenance tick body does not contain %r" % r)
    tick = (["func verifC05MaintenanceTick(cfg *config.Config, arrowBuffer *ingest.ArrowBuffer, walWriter *wal.Writer, "
             "recoveryCallback wal.RecoveryCallback, columnarCallback wal.ColumnarRecoveryCallback) {"]
            + safe_lines + [tail[i_log]] + body + ["}", ""])

    code = "\n".join(strip_code(l) for l in block + tick)
    used = [k for k in IMPORTS if re.search(r"\b%s\." % re.escape(k), code)]
    for k in ("config", "storage", "shutdown", "wal", "ingest"):
        if k not in used:
            used.append(k)
    out = ["//go:build verif", "",
           "// Code generated by /verif/overlaygen/c05_startup.py from cmd/arc/main.go lines %d-%d. DO NOT EDIT." % (starts[0] + 1, ends[0]),
           "", "package main", "", "import ("]
    out += ["\t" + IMPORTS[k] for k in sorted(used)]
    out += [")", "",
            "func verifC05Startup(cfg *config.Config, storageBackend storage.Backend, shutdownCoordinator *shutdown.Coordinator) (*wal.Writer, *ingest.ArrowBuffer) {"]
    out += block
    out += ["\t} // closes: if walRecovery != nil (the periodic maintenance goroutine that follows in main() is not part of startup recovery)",
            "\treturn walWriter, arrowBuffer", "}", "",
            "// verifC05MaintenanceTick is the body of `case <-ticker.C:` of the periodic WAL maintenance goroutine",
            "// (cmd/arc/main.go lines %d-%d) with the safeAge computation that precedes it." % (ends[0] + i_safe + 1, ends[0] + i_case + 1 + len(body))]
    out += tick
    os.makedirs(outdir, exist_ok=True)
    dst = os.path.join(outdir, "zz_c05_startup_gen_test.go")
    with open(dst, "w") as f:
        f.write("\n".join(out))
    print("OVERLAY cmd/arc/zz_c05_startup_gen_test.go %s" % os.path.abspath(dst))


if __name__ == "__main__":
    main()
