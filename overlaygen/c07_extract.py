#!/usr/bin/env python3
"""c07_extract.py - kind-C(iii) overlay generator for property C07.

Called by vcheck as:   c07_extract.py <repo> <outdir>

The outcome of C07 depends on wiring that only exists inside main() of
cmd/arc/main.go.  This script lifts that wiring, VERBATIM and from the file as it
is in <repo> NOW, into callable functions of package main (test-only file):

  verifC07WireShutdown(shutdownCoordinator, walWriter, arrowBuffer, walMaintenanceCancel)
        every shutdownCoordinator.Register(...)/RegisterHook(...) call of main()
        that mentions walWriter / arrowBuffer / walMaintenanceCancel, in source order
  verifC07SafeAge(cfg)            the safeAge computation of the WAL maintenance goroutine
  verifC07MaintenanceTick(...)    the body of `case <-ticker.C:` of that goroutine
  verifC07StartupRecovery(...)    the startup recovery sequence (callbacks + RecoverWithOptions)

A mutation of main.go is therefore what gets tested.  The script FAILS CLOSED: any
missing/ambiguous anchor -> non-zero exit -> the check reports exit 2 (inconclusive),
never 0 or 1.
"""
import os
import re
import sys


def die(msg):
    sys.stderr.write("c07_extract: ANCHOR PROBLEM: %s\n" % msg)
    sys.exit(3)


# ----------------------------------------------------------------- tiny Go lexer helpers
def code_mask(src):
    """Return a string of the same length where every character that is inside a
    comment, string, rune or raw string literal is replaced by a space (newlines
    kept).  Brace/paren matching and regex anchors run on the mask."""
    out = list(src)
    i, n = 0, len(src)
    while i < n:
        c = src[i]
        nxt = src[i + 1] if i + 1 < n else ""
        if c == "/" and nxt == "/":
            j = src.find("\n", i)
            j = n if j < 0 else j
            for k in range(i, j):
                out[k] = " "
            i = j
        elif c == "/" and nxt == "*":
            j = src.find("*/", i + 2)
            j = n if j < 0 else j + 2
            for k in range(i, j):
                if src[k] != "\n":
                    out[k] = " "
            i = j
        elif c == '"':
            j = i + 1
            while j < n and src[j] != '"':
                if src[j] == "\\":
                    j += 1
                j += 1
            for k in range(i + 1, min(j, n)):
                out[k] = " "
            i = j + 1
        elif c == "`":
            j = src.find("`", i + 1)
            j = n if j < 0 else j
            for k in range(i + 1, j):
                if src[k] != "\n":
                    out[k] = " "
            i = j + 1
        elif c == "'":
            j = i + 1
            while j < n and src[j] != "'":
                if src[j] == "\\":
                    j += 1
                j += 1
            for k in range(i + 1, min(j, n)):
                out[k] = " "
            i = j + 1
        else:
            i += 1
    return "".join(out)


def match_close(mask, open_idx):
    """Index of the bracket closing the one at open_idx (on the mask)."""
    pairs = {"(": ")", "{": "}", "[": "]"}
    o = mask[open_idx]
    c = pairs[o]
    depth = 0
    for i in range(open_idx, len(mask)):
        if mask[i] == o:
            depth += 1
        elif mask[i] == c:
            depth -= 1
            if depth == 0:
                return i
    die("unbalanced %r at offset %d" % (o, open_idx))


def find_one(mask, pattern, what, start=0, end=None):
    rx = re.compile(pattern)
    ms = list(rx.finditer(mask, start, end if end is not None else len(mask)))
    if len(ms) != 1:
        die("%s: expected exactly 1 match of /%s/, found %d" % (what, pattern, len(ms)))
    return ms[0]


def line_start(src, idx):
    return src.rfind("\n", 0, idx) + 1


def dedent(text, tabs):
    out = []
    for ln in text.split("\n"):
        k = 0
        while k < tabs and ln.startswith("\t"):
            ln = ln[1:]
            k += 1
        out.append(ln)
    return "\n".join(out)


# ----------------------------------------------------------------- extraction
def main():
    if len(sys.argv) != 3:
        die("usage: c07_extract.py <repo> <outdir>")
    repo, outdir = sys.argv[1], sys.argv[2]
    path = os.path.join(repo, "cmd", "arc", "main.go")
    if not os.path.exists(path):
        die("no cmd/arc/main.go")
    src = open(path).read()
    mask = code_mask(src)

    fm = find_one(mask, r"(?m)^func main\(\) \{", "func main")
    main_open = fm.end() - 1
    main_close = match_close(mask, main_open)

    # ---- (0) construction anchors the hand-written fixture mirrors
    for pat, what in [
        (r"arrowBuffer := ingest\.NewArrowBuffer\(&cfg\.Ingest, storageBackend, ", "ArrowBuffer construction"),
        (r"arrowBuffer\.SetWAL\(walWriter\)", "arrowBuffer.SetWAL(walWriter)"),
        (r"walWriter, err = wal\.NewWriter\(&wal\.WriterConfig\{", "wal.NewWriter construction"),
        (r"walRecovery = wal\.NewRecovery\(cfg\.WAL\.Directory, ", "wal.NewRecovery construction"),
        (r"shutdownCoordinator\.Shutdown\(\)", "shutdownCoordinator.Shutdown()"),
        (r"shutdownCoordinator := shutdown\.New\(", "shutdown.New"),
    ]:
        find_one(mask, pat, what, main_open, main_close)
    # WriterConfig fields the fixture sets by hand (BufferSize/SyncMode/MaxSizeBytes/MaxAge)
    wm = find_one(mask, r"wal\.NewWriter\(&wal\.WriterConfig\{", "wal.WriterConfig literal", main_open, main_close)
    wc_close = match_close(mask, wm.end() - 1)
    wc_fields = sorted(re.findall(r"(?m)^\s*(\w+):", mask[wm.end():wc_close]))
    if wc_fields != sorted(["WALDir", "SyncMode", "MaxSizeBytes", "MaxAge", "BufferSize", "Logger"]):
        die("wal.WriterConfig literal in main() has fields %s; the C07 fixture mirrors WALDir/SyncMode/MaxSizeBytes/MaxAge/BufferSize/Logger" % wc_fields)

    # ---- (a) shutdown registrations that involve the WAL / the buffer
    regs = []
    for m in re.finditer(r"shutdownCoordinator\.(Register|RegisterHook)\(", mask[:main_close]):
        if m.start() < main_open:
            continue
        close = match_close(mask, m.end() - 1)
        text_mask = mask[m.start():close + 1]
        if not re.search(r"\b(walWriter|arrowBuffer|walMaintenanceCancel)\b", text_mask):
            continue
        ls = line_start(src, m.start())
        if src[ls:m.start()].strip() != "":
            die("shutdown registration is not a statement on its own line at offset %d" % m.start())
        indent = len(src[ls:m.start()])
        nm = re.match(r'shutdownCoordinator\.\w+\("([^"]*)"', src[m.start():close + 1])
        if not nm:
            die("shutdown registration without literal name at offset %d" % m.start())
        # enclosing guard: nearest preceding line with smaller indentation
        k = ls
        guard = ""
        while k > main_open:
            pk = line_start(src, k - 1)
            pl = src[pk:k - 1]
            if pl.strip() and not pl.strip().startswith("//") and (len(pl) - len(pl.lstrip("\t"))) < indent:
                guard = pl.strip()
                break
            k = pk
        regs.append({"name": nm.group(1), "text": dedent(src[m.start():close + 1], indent), "mask": text_mask,
                     "guard": guard, "indent": indent})
    names = [r["name"] for r in regs]
    want = ["wal", "arrow-buffer", "wal-purge", "wal-periodic-maintenance"]
    if sorted(names) != sorted(want):
        die("shutdown registrations mentioning walWriter/arrowBuffer/walMaintenanceCancel are %s, expected %s "
            "(the C07 fixture must be revisited)" % (names, want))
    wire = []
    for r in regs:
        g = r["guard"]
        if r["name"] == "arrow-buffer":
            if g.startswith("if "):
                die("arrow-buffer registration is now conditional (%s)" % g)
            wire.append(r["text"])
            continue
        # wal / wal-purge / wal-periodic-maintenance exist only when the WAL is enabled:
        # main() guards them with cfg.WAL.Enabled / walWriter != nil / walRecovery != nil,
        # all equivalent to walWriter != nil.
        if g not in ("if cfg.WAL.Enabled {", "if walWriter != nil {", "if walRecovery != nil {"):
            die("registration %r has unexpected enclosing guard %r" % (r["name"], g))
        wire.append("if walWriter != nil {\n\t" + r["text"].replace("\n", "\n\t") + "\n}")

    # ---- (b) maintenance goroutine: safeAge + tick body
    ri = find_one(mask, r"recoveryInterval := ", "recoveryInterval", main_open, main_close)
    sa = find_one(mask, r"(?m)^\t+safeAge := ", "safeAge :=", main_open, main_close)
    if not (sa.start() < ri.start()):
        die("safeAge is no longer computed before recoveryInterval")
    sa_ls = line_start(src, sa.end() - 1)
    sa_indent = len(src[sa_ls:]) - len(src[sa_ls:].lstrip("\t"))
    # statement 1: `safeAge := ...` line ; statement 2: `if safeAge < ... { ... }`
    eol = src.find("\n", sa_ls)
    ifm = re.compile(r"\s*if safeAge [<>=]").match(mask, eol)
    if not ifm:
        die("expected `if safeAge <...` clamp right after `safeAge :=`")
    ob = mask.find("{", ifm.end())
    cb = match_close(mask, ob)
    safe_text = dedent(src[sa_ls:cb + 1], sa_indent)
    if re.search(r"\b(return|goto)\b", mask[sa_ls:cb + 1]):
        die("safeAge computation contains return/goto")

    gom = re.compile(r"\s*go func\(\) \{").match(mask, src.find("\n", ri.start()))
    if not gom:
        die("expected `go func() {` right after `recoveryInterval :=`")
    go_open = gom.end() - 1
    go_close = match_close(mask, go_open)
    tick = find_one(mask, r"case <-ticker\.C:", "case <-ticker.C (WAL maintenance)", go_open, go_close)
    done = find_one(mask, r"case <-walMaintenanceCtx\.Done\(\):", "case <-walMaintenanceCtx.Done()", go_open, go_close)
    if not (done.start() < tick.start()):
        die("select arms of the maintenance goroutine changed order/shape")
    sel_open = mask.rfind("select {", ri.start(), done.start())
    if sel_open < 0:
        die("select { of the maintenance goroutine not found")
    sel_open = sel_open + len("select ")
    sel_close = match_close(mask, sel_open)
    if not (tick.start() < sel_close):
        die("ticker arm is not inside the maintenance select")
    tick_ls0 = line_start(src, tick.start())
    arm_indent = src[tick_ls0:tick.start()]
    if re.search(r"(?m)^" + arm_indent + r"(case |default:)", mask[tick.end():sel_close]):
        die("another select arm follows the ticker arm")
    body_start = src.find("\n", tick.end()) + 1
    body_end = line_start(src, sel_close)
    body = src[body_start:body_end]
    body_mask = mask[body_start:body_end]
    if re.search(r"\b(return|break|continue|goto)\b", body_mask):
        die("tick body contains return/break/continue/goto; cannot be lifted into a function mechanically")
    tick_ls = line_start(src, tick.start())
    tick_indent = len(src[tick_ls:tick.start()])
    tick_text = dedent(body.rstrip("\n"), tick_indent + 1)
    for ident in ("HasFlushFailure", "PurgeOlderThan", "RecoverWithOptions"):
        if ident not in body_mask:
            die("tick body no longer mentions %s" % ident)
    # schedule point: the tick reads walWriter.CurrentFile() and only then lets recovery scan
    # the directory; ingest (and so a WAL rotation) is live in between. The only edit to the
    # verbatim body is one hook call inserted in front of the RecoverWithOptions statement.
    tl = tick_text.split("\n")
    hits = [i for i, ln in enumerate(tl) if re.match(r"^\s*stats, err := recovery\.RecoverWithOptions\(", ln)]
    if len(hits) != 1:
        die("tick body: expected exactly one `stats, err := recovery.RecoverWithOptions(` statement, found %d" % len(hits))
    cur = [i for i, ln in enumerate(tl) if "walWriter.CurrentFile()" in ln]
    if len(cur) != 1 or not cur[0] < hits[0]:
        die("tick body: walWriter.CurrentFile() is no longer read (once) before the recovery call")
    ind0 = re.match(r"^\s*", tl[hits[0]]).group(0)
    tl.insert(hits[0], ind0 + "if verifC07TickHook != nil {\n" + ind0 + "\tverifC07TickHook(\"after-currentfile-before-recover\")\n" + ind0 + "}")
    tick_text = "\n".join(tl)

    # ---- (c) startup recovery
    rc = find_one(mask, r"(?m)^\t+recoveryCallback := createWALRecoveryCallback\(", "recoveryCallback :=", main_open, main_close)
    rs = find_one(mask, r"recoveryStats, err := walRecovery\.RecoverWithOptions\(", "startup RecoverWithOptions", main_open, main_close)
    if not (rc.start() < rs.start() < sa.start()):
        die("startup recovery no longer precedes the maintenance goroutine")
    rc_ls = line_start(src, rc.end() - 1)
    rc_indent = len(src[rc_ls:]) - len(src[rc_ls:].lstrip("\t"))
    call_close = match_close(mask, rs.end() - 1)
    ifm = re.compile(r"\s*if err != nil \{").match(mask, call_close + 1)
    if not ifm:
        die("expected `if err != nil {` right after the startup RecoverWithOptions call")
    ob = ifm.end() - 1
    cb = match_close(mask, ob)
    # follow `else if ... {}` / `else {}` chains
    while True:
        em = re.compile(r"\s*else\b[^{]*\{").match(mask, cb + 1)
        if not em:
            break
        cb = match_close(mask, em.end() - 1)
    startup_text = dedent(src[rc_ls:cb + 1], rc_indent)
    if re.search(r"\b(return|goto)\b", mask[rc_ls:cb + 1]):
        die("startup recovery block contains return/goto")
    if "columnarCallback := createColumnarRecoveryCallback(" not in mask[rc_ls:cb + 1]:
        die("columnarCallback is no longer created in the startup recovery block")
    if "SkipActiveFile" not in mask[rc_ls:cb + 1] and "RecoveryOptions" not in mask[rc_ls:cb + 1]:
        die("startup recovery no longer passes RecoveryOptions")

    def ind(text, n=1):
        return "\n".join(("\t" * n + ln) if ln.strip() else ln for ln in text.split("\n"))

    out = []
    out.append("//go:build verif\n")
    out.append("// Code generated by /verif/overlaygen/c07_extract.py from the CURRENT cmd/arc/main.go. DO NOT EDIT.")
    out.append("// Every function body below is a verbatim slice of main().\n")
    out.append("package main\n")
    out.append("import (\n\t\"context\"\n\t\"time\"\n\n"
               "\t\"github.com/basekick-labs/arc/internal/config\"\n"
               "\t\"github.com/basekick-labs/arc/internal/ingest\"\n"
               "\t\"github.com/basekick-labs/arc/internal/logger\"\n"
               "\t\"github.com/basekick-labs/arc/internal/metrics\"\n"
               "\t\"github.com/basekick-labs/arc/internal/shutdown\"\n"
               "\t\"github.com/basekick-labs/arc/internal/wal\"\n"
               "\t\"github.com/rs/zerolog\"\n"
               "\t\"github.com/rs/zerolog/log\"\n)\n")
    out.append("var (\n\t_ = context.Background\n\t_ = time.Second\n\t_ = logger.Get\n\t_ = metrics.Get\n"
               "\t_ = log.Info\n\t_ zerolog.Logger\n\t_ *config.Config\n\t_ shutdown.ShutdownFunc\n)\n")
    out.append("// verifC07TickHook is the only instrumentation: a schedule point inside the maintenance tick,")
    out.append("// between its walWriter.CurrentFile() read and the recovery scan.")
    out.append("var verifC07TickHook func(point string)\n")
    out.append("// verifC07RegistrationNames lists the lifted registrations in source order.")
    out.append("var verifC07RegistrationNames = []string{%s}\n" % ", ".join('"%s"' % n for n in names))
    out.append("func verifC07WireShutdown(shutdownCoordinator *shutdown.Coordinator, walWriter *wal.Writer, "
               "arrowBuffer *ingest.ArrowBuffer, walMaintenanceCancel context.CancelFunc) {")
    for w in wire:
        out.append(ind(w))
    out.append("}\n")
    out.append("func verifC07SafeAge(cfg *config.Config) time.Duration {")
    out.append(ind(safe_text))
    out.append("\treturn safeAge\n}\n")
    out.append("func verifC07MaintenanceTick(cfg *config.Config, arrowBuffer *ingest.ArrowBuffer, walWriter *wal.Writer, "
               "safeAge time.Duration, recoveryCallback wal.RecoveryCallback, columnarCallback wal.ColumnarRecoveryCallback, "
               "walLogger zerolog.Logger) {")
    out.append(ind(tick_text))
    out.append("}\n")
    out.append("func verifC07StartupRecovery(cfg *config.Config, walWriter *wal.Writer, walRecovery *wal.Recovery, "
               "arrowBuffer *ingest.ArrowBuffer) (wal.RecoveryCallback, wal.ColumnarRecoveryCallback) {")
    out.append(ind(startup_text))
    out.append("\treturn recoveryCallback, columnarCallback\n}")
    os.makedirs(outdir, exist_ok=True)
    dst = os.path.join(outdir, "zz_c07_extracted_test.go")
    with open(dst, "w") as f:
        f.write("\n".join(out) + "\n")
    print("OVERLAY cmd/arc/zz_c07_extracted_test.go %s" % dst)


if __name__ == "__main__":
    main()
