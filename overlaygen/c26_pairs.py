#!/usr/bin/env python3
"""C26 overlay generator: read, from the CURRENT source, how every nonce-protected message type
is wired - which NonceCache it is tracked in, the TTL that cache is constructed with, the
timestamp tolerance handed to the paired Validate*HMAC, and that the replay-tracking call follows
the validator with the MAC-bound (sender, nonce) - and emit the table as Go into
internal/cluster/security (package security) plus a constructor copy into internal/cluster
(package cluster). Any shape it does not recognise -> exit != 0 -> vcheck exit 2 (fail closed).

usage: c26_pairs.py [--wiring-only] <repo> <outdir>      prints: OVERLAY <repo-relative-dst> <abs-src>

--wiring-only (handler-level parts, which execute the real receive paths): only the construction
sites and tolerance arguments are extracted; the validate->Track sequencing is not asserted because
the handlers themselves are run.
"""
import glob
import os
import re
import sys


def die(msg):
    print("c26_pairs: " + msg, file=sys.stderr)
    sys.exit(3)


def read(repo, rel):
    p = os.path.join(repo, rel)
    if not os.path.exists(p):
        die("anchor file missing: " + rel)
    return open(p).read()


def strip_comments(src):
    """Blank out // and /* */ comments and keep string literals (offsets preserved)."""
    out = []
    i, n = 0, len(src)
    while i < n:
        c = src[i]
        if c == '"' or c == '`':
            j = i + 1
            while j < n and src[j] != c:
                if c == '"' and src[j] == "\\":
                    j += 1
                j += 1
            out.append(src[i:j + 1])
            i = j + 1
        elif c == "'":
            j = i + 1
            while j < n and src[j] != "'":
                if src[j] == "\\":
                    j += 1
                j += 1
            out.append(src[i:j + 1])
            i = j + 1
        elif src.startswith("//", i):
            j = src.find("\n", i)
            j = n if j < 0 else j
            out.append(" " * (j - i))
            i = j
        elif src.startswith("/*", i):
            j = src.find("*/", i)
            j = n if j < 0 else j + 2
            out.append(re.sub(r"[^\n]", " ", src[i:j]))
            i = j
        else:
            out.append(c)
            i += 1
    return "".join(out)


def call_args(src, open_idx):
    """src[open_idx] == '(' -> (list of top-level argument strings, index after the ')')."""
    assert src[open_idx] == "("
    depth, i, start, args = 0, open_idx, open_idx + 1, []
    in_str = None
    while i < len(src):
        c = src[i]
        if in_str:
            if c == "\\" and in_str == '"':
                i += 2
                continue
            if c == in_str:
                in_str = None
        elif c in '"`':
            in_str = c
        elif c in "([{":
            depth += 1
        elif c in ")]}":
            depth -= 1
            if depth == 0:
                last = src[start:i].strip()
                if last:
                    args.append(last)
                return args, i + 1
        elif c == "," and depth == 1:
            args.append(src[start:i].strip())
            start = i + 1
        i += 1
    die("unbalanced call at offset %d" % open_idx)


def find_calls(src, name):
    """All calls `name(` in comment-stripped src -> list of (start, args, end)."""
    res = []
    for m in re.finditer(re.escape(name) + r"\(", src):
        args, end = call_args(src, m.end() - 1)
        res.append((m.start(), args, end))
    return res


def one_call(src, name, where):
    c = find_calls(src, name)
    if len(c) != 1:
        die("expected exactly one %s( in %s, found %d" % (name, where, len(c)))
    return c[0]


def enclosing_func_ok(src, a, b, where):
    if re.search(r"^func ", src[a:b], re.M):
        die("%s: validator and replay-tracking call are not in the same function" % where)


STRICT = True


def check_track(src, call, st, end, a, where):
    """The replay-tracking call must follow the validator in the same function, be keyed by the
    MAC-bound (sender=a[2], nonce=a[1]) and its false result must be a rejection. Skipped with
    --wiring-only (parts that execute the real handler do not rely on this assertion)."""
    if not STRICT:
        return
    tr = [c for c in find_calls(src, call) if c[0] > end]
    if not tr:
        die("%s: no %s( after the validator" % (where, call))
    tst, targs, _ = tr[0]
    enclosing_func_ok(src, st, tst, where)
    if len(targs) != 2 or norm(targs[0]) != norm(a[2]) or norm(targs[1]) != norm(a[1]):
        die("%s: Track(%s) is not keyed by the MAC-bound (sender=%s, nonce=%s)" % (where, ", ".join(targs), a[2], a[1]))
    if not re.search(r"!\s*" + re.escape(call) + r"\(", src[tst - 4:tst + len(call) + 2]):
        die("%s: Track result is not negated into a rejection" % where)


def norm(e):
    return re.sub(r"\s+", "", e)


IDENT = re.compile(r"[A-Za-z_][A-Za-z0-9_]*(?:\.[A-Za-z_][A-Za-z0-9_]*)*")


def resolve(expr, pkg_srcs, depth=0, keep_prefix=False):
    """Rewrite a duration expression found in package `pkg_srcs` so that it compiles inside
    package security: security.X -> X, time.X kept, local constants expanded. With keep_prefix
    the security. qualifier stays (for packages that import it under that name)."""
    if depth > 6:
        die("constant resolution too deep for " + expr)

    def sub(m):
        tok = m.group(0)
        if re.fullmatch(r"\d.*", tok):
            return tok
        if tok.startswith("security."):
            rest = tok[len("security."):]
            if "." in rest:
                die("unsupported selector in duration expression: " + tok)
            return tok if keep_prefix else rest
        if tok.startswith("time."):
            return tok
        if "." in tok:
            die("unsupported identifier in duration expression: " + tok)
        # local constant of the calling package
        for s in pkg_srcs:
            mm = re.search(r"^\s*(?:const\s+)?%s(?:\s+[\w.]+)?\s*=\s*(.+?)\s*$" % re.escape(tok), s, re.M)
            if mm:
                return "(" + resolve(mm.group(1), pkg_srcs, depth + 1, keep_prefix) + ")"
        die("cannot resolve identifier %r in duration expression %r" % (tok, expr))

    return IDENT.sub(sub, expr)


def main():
    global STRICT
    flags, rest = [x for x in sys.argv[1:] if x.startswith("--")], [x for x in sys.argv[1:] if not x.startswith("--")]
    if len(rest) != 2 or any(f != "--wiring-only" for f in flags):
        die("usage: c26_pairs.py [--wiring-only] <repo> <outdir>")
    STRICT = "--wiring-only" not in flags
    repo, outdir = rest
    os.makedirs(outdir, exist_ok=True)

    def pkg_sources(rel_dir):
        return [strip_comments(open(p).read()) for p in sorted(glob.glob(os.path.join(repo, rel_dir, "*.go")))
                if not p.endswith("_test.go")]

    # ---- global census: every construction site and every Track call must be one we understand
    n_new, n_track = 0, 0
    gofiles = []
    for root, dirs, files in os.walk(repo):
        dirs[:] = [d for d in dirs if not d.startswith(".") and d not in ("node_modules", "vendor", "testdata", "docs")]
        gofiles += [os.path.join(root, f) for f in files if f.endswith(".go")]
    for p in sorted(gofiles):
        rel = os.path.relpath(p, repo)
        if p.endswith("_test.go") or rel.startswith("internal/cluster/security/") or "/testdata/" in rel:
            continue
        raw = open(p).read()
        if "NewNonceCache(" not in raw and ".Track(" not in raw:
            continue
        s = strip_comments(raw)
        n_new += len(re.findall(r"\bNewNonceCache\(", s))
        n_track += len(re.findall(r"(?:nonceCache|replay|guard|Replay)\.Track\(", s))
    if n_new != 3:
        die("expected 3 NewNonceCache( construction sites outside internal/cluster/security, found %d" % n_new)
    if STRICT and n_track != 3:
        die("expected 3 nonce Track( call sites outside internal/cluster/security, found %d" % n_track)

    sites = []

    # ---- coordinator cache: replicate-sync + forward-apply
    cluster_srcs = pkg_sources("internal/cluster")
    coord = strip_comments(read(repo, "internal/cluster/coordinator.go"))
    fwd = strip_comments(read(repo, "internal/cluster/forward_apply.go"))
    m = re.findall(r"c\.nonceCache\s*=\s*security\.NewNonceCache\(", "\n".join(cluster_srcs))
    if len(m) != 1:
        die("expected one `c.nonceCache = security.NewNonceCache(` in internal/cluster, found %d" % len(m))
    mm = re.search(r"c\.nonceCache\s*=\s*security\.NewNonceCache\(", coord)
    if not mm:
        die("coordinator.go no longer constructs c.nonceCache")
    ttl_args, _ = call_args(coord, mm.end() - 1)
    if len(ttl_args) != 1:
        die("NewNonceCache arity changed")
    coord_ttl_raw = ttl_args[0]
    coord_ttl = resolve(coord_ttl_raw, cluster_srcs)

    st, a, end = one_call(coord, "security.ValidateReplicateSyncHMAC", "coordinator.go")
    if len(a) != 8:
        die("ValidateReplicateSyncHMAC arity changed")
    check_track(coord, "c.nonceCache.Track", st, end, a, "replicate-sync")
    sites.append(("replicate-sync", "coordinator", "internal/cluster/coordinator.go", resolve(a[7], cluster_srcs), coord_ttl, a[7], coord_ttl_raw))

    st, a, end = one_call(fwd, "security.ValidateForwardHMAC", "forward_apply.go")
    if len(a) != 8:
        die("ValidateForwardHMAC arity changed")
    check_track(fwd, "c.nonceCache.Track", st, end, a, "forward-apply")
    sites.append(("forward-apply", "coordinator", "internal/cluster/forward_apply.go", resolve(a[7], cluster_srcs), coord_ttl, a[7], coord_ttl_raw))

    # ---- cmd/arc/main.go sites
    main_srcs = pkg_sources("cmd/arc")
    main_all = "\n".join(main_srcs)
    api_srcs = pkg_sources("internal/api")

    # cache-invalidate
    ci = strip_comments(read(repo, "internal/api/cache_invalidate.go"))
    c = find_calls(main_all, "api.NewCacheInvalidateHandler")
    if len(c) != 1:
        die("expected one api.NewCacheInvalidateHandler( call in cmd/arc, found %d" % len(c))
    _, a, _ = c[0]
    if len(a) != 7:
        die("NewCacheInvalidateHandler arity changed")
    mm = re.fullmatch(r"security\.NewNonceCache\((.*)\)", a[3], re.S)
    if not mm:
        die("cache-invalidate: 4th constructor argument is not security.NewNonceCache(...): " + a[3])
    ci_ttl_raw, ci_tol_raw = mm.group(1).strip(), a[4]
    sig = re.search(r"func NewCacheInvalidateHandler\(([^)]*)\)", ci, re.S)
    if not sig:
        die("NewCacheInvalidateHandler signature not found")
    params = [norm(x) for x in sig.group(1).split(",") if x.strip()]
    # "sharedSecret, clusterName, localNodeID string" -> 3 names, then nonceCache, tolerance
    if not (len(params) >= 5 and params[3].startswith("nonceCache*security.NonceCache") and params[4].startswith("tolerancetime.Duration")):
        die("NewCacheInvalidateHandler parameter order changed: %r" % params)
    if not re.search(r"nonceCache:\s*nonceCache,", ci) or not re.search(r"tolerance:\s*tolerance,", ci):
        die("NewCacheInvalidateHandler no longer stores nonceCache/tolerance verbatim")
    st, a, end = one_call(ci, "security.ValidateCacheInvalidateHMAC", "cache_invalidate.go")
    if len(a) != 7 or norm(a[6]) != "h.tolerance":
        die("cache-invalidate: validator is not called with h.tolerance")
    check_track(ci, "h.nonceCache.Track", st, end, a, "cache-invalidate")
    api_ci_ttl = resolve(ci_ttl_raw, main_srcs, keep_prefix=True)
    api_ci_tol = resolve(ci_tol_raw, main_srcs, keep_prefix=True)
    sites.append(("cache-invalidate", "cache-invalidate", "cmd/arc/main.go + internal/api/cache_invalidate.go",
                  resolve(ci_tol_raw, main_srcs), resolve(ci_ttl_raw, main_srcs), ci_tol_raw, ci_ttl_raw))

    # edge-sync
    es = strip_comments(read(repo, "internal/api/edgesync.go"))
    c = find_calls(main_all, "api.NewEdgeSyncHandler")
    if len(c) != 1:
        die("expected one api.NewEdgeSyncHandler( call in cmd/arc, found %d" % len(c))
    _, a, _ = c[0]
    mm = re.search(r"\bReplay:\s*security\.NewNonceCache\(", a[0])
    if not mm:
        die("edge-sync: EdgeSyncHandlerConfig.Replay is not security.NewNonceCache(...)")
    targs2, _ = call_args(a[0], mm.end() - 1)
    es_ttl_raw = targs2[0]
    if not re.search(r"replay:\s*cfg\.Replay,", es):
        die("edge-sync: handler no longer stores cfg.Replay verbatim")
    api_es_ttl = resolve(es_ttl_raw, main_srcs, keep_prefix=True)
    api_es = []
    for fn, typ, nargs in (("security.ValidateSyncFileHMACWithReplay", "sync-file", 10),
                           ("security.ValidateSyncReconcileHMACWithReplay", "sync-reconcile", 9)):
        _, a, _ = one_call(es, fn, "edgesync.go")
        if len(a) != nargs or norm(a[0]) != "h.replay":
            die("%s: not called with h.replay as the guard / arity changed" % typ)
        sites.append((typ, "edge-sync", "cmd/arc/main.go + internal/api/edgesync.go",
                      resolve(a[-1], api_srcs), resolve(es_ttl_raw, main_srcs), a[-1], es_ttl_raw))
        api_es.append((typ, resolve(a[-1], api_srcs, keep_prefix=True), a[-1]))

    # ---- emit
    dst = os.path.join(outdir, "c26_sites_gen.go")
    with open(dst, "w") as f:
        f.write("//go:build verif\n\n// Code generated by /verif/overlaygen/c26_pairs.py from the current call sites; DO NOT EDIT.\n\n")
        f.write("package security\n\nimport \"time\"\n\n")
        f.write("type verifC26Site struct {\n\tType, Cache, Origin string\n\tTolerance, TTL   time.Duration\n\tTolExpr, TTLExpr string\n}\n\n")
        f.write("// verifC26Sites: (tolerance, nonce TTL) per nonce-protected message type as wired now.\n")
        f.write("var verifC26Sites = []verifC26Site{\n")
        for typ, cache, origin, tol, ttl, tol_raw, ttl_raw in sites:
            f.write("\t{%s, %s, %s, %s, %s, %s, %s},\n" % (
                gq(typ), gq(cache), gq(origin), tol, ttl, gq(tol_raw), gq(ttl_raw)))
        f.write("}\n")
    print("OVERLAY internal/cluster/security/zz_c26_sites_verif.go " + dst)

    # handler-level part (package cluster): constructor copy + the coordinator's sites, with the
    # expressions copied verbatim (they are already valid inside package cluster)
    dst2 = os.path.join(outdir, "c26_cluster_gen.go")
    with open(dst2, "w") as f:
        f.write("//go:build verif\n\n// Code generated by /verif/overlaygen/c26_pairs.py from internal/cluster/coordinator.go and forward_apply.go; DO NOT EDIT.\n\n")
        f.write("package cluster\n\nimport (\n\t\"time\"\n\n\t\"github.com/basekick-labs/arc/internal/cluster/security\"\n)\n\n")
        f.write("// verifC26NewCoordinatorNonceCache builds the nonce cache exactly as Coordinator.Start does.\n")
        f.write("func verifC26NewCoordinatorNonceCache() *security.NonceCache {\n\treturn security.NewNonceCache(%s)\n}\n\n" % coord_ttl_raw)
        f.write("type verifC26Site struct {\n\tType, Cache, Origin string\n\tTolerance, TTL   time.Duration\n\tTolExpr, TTLExpr string\n}\n\n")
        f.write("var verifC26ClusterSites = []verifC26Site{\n")
        for typ, cache, origin, tol, ttl, tol_raw, ttl_raw in sites:
            if cache != "coordinator":
                continue
            f.write("\t{%s, %s, %s, %s, %s, %s, %s},\n" % (gq(typ), gq(cache), gq(origin), tol_raw, ttl_raw, gq(tol_raw), gq(ttl_raw)))
        f.write("}\n")
    print("OVERLAY internal/cluster/zz_c26_gen_verif.go " + dst2)


    # handler-level part (package api): the caches and tolerance cmd/arc/main.go hands to the
    # HTTP handlers, resolved into package api's namespace
    dst3 = os.path.join(outdir, "c26_api_gen.go")
    with open(dst3, "w") as f:
        f.write("//go:build verif\n\n// Code generated by /verif/overlaygen/c26_pairs.py from cmd/arc/main.go and internal/api; DO NOT EDIT.\n\n")
        f.write("package api\n\nimport (\n\t\"time\"\n\n\t\"github.com/basekick-labs/arc/internal/cluster/security\"\n)\n\n")
        f.write("// as cmd/arc/main.go wires api.NewCacheInvalidateHandler\n")
        f.write("func verifC26NewCacheInvalidateNonceCache() *security.NonceCache {\n\treturn security.NewNonceCache(%s)\n}\n\n" % api_ci_ttl)
        f.write("var verifC26CacheInvalidateTolerance time.Duration = %s\n\n" % api_ci_tol)
        f.write("// as cmd/arc/main.go wires api.EdgeSyncHandlerConfig.Replay\n")
        f.write("func verifC26NewEdgeSyncReplay() *security.NonceCache {\n\treturn security.NewNonceCache(%s)\n}\n\n" % api_es_ttl)
        f.write("type verifC26Site struct {\n\tType, Cache, Origin string\n\tTolerance, TTL   time.Duration\n\tTolExpr, TTLExpr string\n}\n\n")
        f.write("var verifC26APISites = []verifC26Site{\n")
        f.write("\t{%s, %s, %s, %s, %s, %s, %s},\n" % (gq("cache-invalidate"), gq("cache-invalidate"), gq("cmd/arc/main.go + internal/api/cache_invalidate.go"),
                                                        api_ci_tol, api_ci_ttl, gq(ci_tol_raw), gq(ci_ttl_raw)))
        for typ, tol, tol_raw in api_es:
            f.write("\t{%s, %s, %s, %s, %s, %s, %s},\n" % (gq(typ), gq("edge-sync"), gq("cmd/arc/main.go + internal/api/edgesync.go"),
                                                            tol, api_es_ttl, gq(tol_raw), gq(es_ttl_raw)))
        f.write("}\n")
    print("OVERLAY internal/api/zz_c26_gen_verif.go " + dst3)


def gq(s):
    return '"' + s.replace("\\", "\\\\").replace('"', '\\"').replace("\n", " ") + '"'


if __name__ == "__main__":
    main()
