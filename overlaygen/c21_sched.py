#!/usr/bin/env python3
"""Overlay generator for C21 (kind C: instrumented copy of the CURRENT file).

usage: c21_sched.py <repo> <outdir>

Writes a copy of <repo>/internal/auth/auth.go in which
  * VerifyToken calls verifSched("verify:after-cache-miss") after the cache lookup
    missed (after the miss counter, else right before the token query),
    verifSched("verify:after-query") once the token query (the single
    am.db.Query/QueryContext call) and its error check have passed, and
    verifSched("verify:before-insert") right before every am.cacheMu.Lock() that
    follows the query (the cache insert) - wherever those landmarks sit;
  * every other function of auth.go calls verifSched("cache-lock:<func>") before
    each am.cacheMu.Lock() it takes (helpers on VerifyToken's hit path);
  * InvalidateCache calls verifSched("invalidate:enter") before taking the lock and
    verifSched("invalidate:exit") after the cache was replaced;
  * every time.Now()/time.Since(/time.Until( goes through verifNow() (clock seam),
and a helper file that defines verifSched / VerifSetSchedHook / verifNow /
VerifSetClock. Nothing else in the file is touched, so a mutation or fix of
auth.go is still what gets compiled.

Fails closed (exit 3) when an anchor is missing or ambiguous.
"""
import os
import re
import sys


def die(msg):
    sys.stderr.write("c21_sched: " + msg + "\n")
    sys.exit(3)


def match_close(src, i, what):
    """index of the bracket closing the one at src[i] ('{' or '('), skipping
    string/rune literals and comments."""
    op = src[i]
    cl = {"{": "}", "(": ")"}[op]
    depth, j = 0, i
    in_str = None
    while j < len(src):
        c = src[j]
        if in_str:
            if in_str in "\"'" and c == "\\":
                j += 2
                continue
            if c == in_str:
                in_str = None
        elif c in "\"`'":
            in_str = c
        elif c == "/" and src[j:j + 2] == "//":
            j = src.index("\n", j)
            continue
        elif c == "/" and src[j:j + 2] == "/*":
            j = src.index("*/", j) + 2
            continue
        elif c == op:
            depth += 1
        elif c == cl:
            depth -= 1
            if depth == 0:
                return j
        j += 1
    die("unbalanced %s for %s" % (op, what))


def func_span(src, header_re):
    """(start_of_body, end_of_body) of the single function whose header matches."""
    ms = list(re.finditer(header_re, src, re.M))
    if len(ms) != 1:
        die("expected exactly one match for %r, found %d" % (header_re, len(ms)))
    i = src.index("{", ms[0].end() - 1)
    return i + 1, match_close(src, i, header_re)


def line_start(s, i):
    return s.rfind("\n", 0, i) + 1


def line_end(s, i):
    """index just past the newline that ends the line containing i"""
    return s.index("\n", i) + 1


def indent_at(s, i):
    return re.match(r"[ \t]*", s[line_start(s, i):]).group(0)


def next_code_line(s, i):
    """(start, text) of the first non-blank, non-comment line at or after i"""
    while i < len(s):
        e = s.find("\n", i)
        e = len(s) if e < 0 else e
        t = s[i:e].strip()
        if t and not t.startswith("//"):
            return i, t
        i = e + 1
    return len(s), ""


def instrument_verify(body):
    """Insert the three VerifyToken points at semantic landmarks: the token
    query (am.db.Query / QueryContext - must exist exactly once), the cache
    lookup miss before it, and every am.cacheMu.Lock() after it (the cache
    insert), wherever they sit (inside the rows loop, after it, after an
    explicit rows.Close())."""
    qs = list(re.finditer(r"\bam\.db\.Query(?:Context)?\(", body))
    if len(qs) != 1:
        die("VerifyToken: expected exactly one am.db.Query/QueryContext call (the token query), found %d" % len(qs))
    q = qs[0]
    q_stmt = line_start(body, q.start())
    q_close = match_close(body, q.end() - 1, "token query call")

    # 1. after-query: after the statement and the error check that directly follows it
    pos = line_end(body, q_close)
    ind = indent_at(body, q.start())
    ns, nt = next_code_line(body, pos)
    if re.match(r"if\s+(?:\w+\s*:=.*;\s*)?err\s*!=\s*nil\s*\{", nt):
        pos = line_end(body, match_close(body, body.index("{", ns), "error check after the token query"))
        ns, nt = next_code_line(body, pos)
    if re.match(r"defer\s+\w+\.Close\(\)\s*$", nt):
        pos = line_end(body, ns)
    after_query = pos

    # 2. before-insert: every am.cacheMu.Lock() after the query
    locks = [m for m in re.finditer(r"^[ \t]*am\.cacheMu\.Lock\(\)[ \t]*$", body, re.M) if m.start() > after_query]
    if not locks:
        die("VerifyToken: no am.cacheMu.Lock() after the token query (cache insert landmark missing)")

    # 3. after-cache-miss: after the miss counter if it is there (exactly once,
    # before the query), else right before the query statement
    miss = [m for m in re.finditer(r"^[ \t]*am\.cacheMisses\.Add\([^)\n]*\)[ \t]*$", body, re.M) if m.start() < q_stmt]
    if len(miss) == 1:
        miss_pos, miss_ind = line_end(body, miss[0].start()), indent_at(body, miss[0].start())
    else:
        miss_pos, miss_ind = q_stmt, ind
    if "RLock()" not in body[:miss_pos] and "cache[" not in body[:miss_pos]:
        die("VerifyToken: no cache lookup before the token query (cache-miss landmark missing)")

    ins = [(miss_pos, miss_ind + 'verifSched("verify:after-cache-miss")\n'),
           (after_query, ind + 'verifSched("verify:after-query")\n')]
    for m in locks:
        ins.append((line_start(body, m.start()), indent_at(body, m.start()) + 'verifSched("verify:before-insert")\n'))
    # a write lock taken on the hit path (before the miss point) gets its own point
    for m in re.finditer(r"^[ \t]*am\.cacheMu\.Lock\(\)[ \t]*$", body, re.M):
        if m.start() < miss_pos:
            ins.append((line_start(body, m.start()), indent_at(body, m.start()) + 'verifSched("verify:hit-path-lock")\n'))
    for at, text in sorted(ins, reverse=True):
        body = body[:at] + text + body[at:]
    return body, len(locks)


def insert_once(body, anchor_re, text, where, what):
    ms = list(re.finditer(anchor_re, body, re.M))
    if len(ms) != 1:
        die("anchor for %s: expected exactly one match of %r, found %d" % (what, anchor_re, len(ms)))
    m = ms[0]
    indent = re.match(r"[ \t]*", body[body.rfind("\n", 0, m.start()) + 1:]).group(0)
    if where == "after":
        eol = body.index("\n", m.end())
        return body[:eol + 1] + indent + text + "\n" + body[eol + 1:]
    sol = body.rfind("\n", 0, m.start()) + 1
    return body[:sol] + indent + text + "\n" + body[sol:]


HELPER = '''//go:build verif

package auth

import (
	"sync/atomic"
	"time"
)

// verifSchedHook is the schedule-point hook installed by the C21 harness.
var verifSchedHook atomic.Pointer[func(point string)]

func verifSched(point string) {
	if h := verifSchedHook.Load(); h != nil {
		(*h)(point)
	}
}

// VerifSetSchedHook installs (or with nil removes) the schedule-point hook.
func VerifSetSchedHook(f func(point string)) {
	if f == nil {
		verifSchedHook.Store(nil)
		return
	}
	verifSchedHook.Store(&f)
}

// verifClock is the fake clock (unix nanoseconds); 0 means "use the real clock".
var verifClock atomic.Int64

func verifNow() time.Time {
	if v := verifClock.Load(); v != 0 {
		return time.Unix(0, v)
	}
	return time.Now()
}
func verifSince(t time.Time) time.Duration { return verifNow().Sub(t) }
func verifUntil(t time.Time) time.Duration { return t.Sub(verifNow()) }

// VerifSetClock sets the fake clock for this package (zero time = real clock).
func VerifSetClock(t time.Time) {
	if t.IsZero() {
		verifClock.Store(0)
		return
	}
	verifClock.Store(t.UnixNano())
}
'''


def main():
    if len(sys.argv) != 3:
        die("usage: c21_sched.py <repo> <outdir>")
    repo, outdir = sys.argv[1], sys.argv[2]
    rel = "internal/auth/auth.go"
    path = os.path.join(repo, rel)
    if not os.path.exists(path):
        die("missing " + path)
    src = open(path).read()
    if "verifSched(" in src or "verifNow(" in src:
        die("auth.go already contains verif hooks")

    # --- VerifyToken
    b0, b1 = func_span(src, r"^func \(am \*AuthManager\) VerifyToken\(token string\) \*TokenInfo \{")
    body = src[b0:b1]
    body, nlocks = instrument_verify(body)
    src = src[:b0] + body + src[b1:]

    # --- InvalidateCache
    b0, b1 = func_span(src, r"^func \(am \*AuthManager\) InvalidateCache\(\) \{")
    body = src[b0:b1]
    body = insert_once(body, r"^[ \t]*am\.cacheMu\.Lock\(\)[ \t]*$", 'verifSched("invalidate:enter")', "before",
                       "InvalidateCache lock")
    body = insert_once(body, r"^[ \t]*am\.cacheMu\.Unlock\(\)[ \t]*$", 'verifSched("invalidate:exit")', "after",
                       "InvalidateCache unlock")
    src = src[:b0] + body + src[b1:]

    # --- every other function of the file that takes the cache write lock
    # (helpers VerifyToken may call between its lookup and its return, e.g. a
    # re-insert on the hit path): a point before each am.cacheMu.Lock()
    nother = 0
    heads = list(re.finditer(r"^func (?:\([^)]*\) )?(\w+)\(.*\{[ \t]*$", src, re.M))
    for h in reversed(heads):
        name = h.group(1)
        if name in ("VerifyToken", "InvalidateCache"):
            continue
        o = h.end() - 1 - (len(h.group(0)) - len(h.group(0).rstrip()))
        o = src.rindex("{", h.start(), h.end())
        c = match_close(src, o, "func " + name)
        fb = src[o + 1:c]
        ms = list(re.finditer(r"^[ \t]*am\.cacheMu\.Lock\(\)[ \t]*$", fb, re.M))
        for m in reversed(ms):
            at = line_start(fb, m.start())
            fb = fb[:at] + indent_at(fb, m.start()) + 'verifSched("cache-lock:%s")\n' % name + fb[at:]
            nother += 1
        src = src[:o + 1] + fb + src[c:]

    # --- clock seam
    n = 0
    for pat, rep in ((r"\btime\.Now\(\)", "verifNow()"), (r"\btime\.Since\(", "verifSince("), (r"\btime\.Until\(", "verifUntil(")):
        src, k = re.subn(pat, rep, src)
        n += k
    if n == 0:
        die("clock seam: no time.Now()/Since/Until in auth.go")
    b0, b1 = func_span(src, r"^func \(am \*AuthManager\) VerifyToken\(token string\) \*TokenInfo \{")
    if "verifNow()" not in src[b0:b1]:
        die("clock seam: VerifyToken does not read the clock")

    os.makedirs(outdir, exist_ok=True)
    dst = os.path.join(outdir, "c21_auth.go")
    with open(dst, "w") as f:
        f.write(src)
    helper = os.path.join(outdir, "c21_zz_verif_sched.go")
    with open(helper, "w") as f:
        f.write(HELPER)
    print("OVERLAY %s %s" % (rel, dst))
    print("OVERLAY internal/auth/zz_verif_sched.go %s" % helper)
    sys.stderr.write("c21_sched: %d schedule points, %d clock reads rewritten\n" % (4 + nlocks + nother, n))


if __name__ == "__main__":
    main()
