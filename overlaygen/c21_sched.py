#!/usr/bin/env python3
"""Overlay generator for C21 (kind C: instrumented copy of the CURRENT file).

usage: c21_sched.py <repo> <outdir>

Writes a copy of <repo>/internal/auth/auth.go in which
  * VerifyToken calls verifSched("verify:after-cache-miss") after the cache lookup
    missed (after the miss counter, else right before the token query);
  * the function that holds the token query (the single am.db.Query/QueryContext
    call on VerifyToken's call path: VerifyToken itself or a helper method it
    calls, transitively) calls verifSched("verify:after-query") once the query and
    its error check have passed and verifSched("verify:before-insert") right before
    every am.cacheMu.Lock() that follows; when it is a helper it also defers
    verifSched("verify:miss-exit"), which fires when the helper returns (rows
    closed, connection released, result not yet back in VerifyToken);
  * every other function of auth.go calls verifSched("cache-lock:<func>") before
    each am.cacheMu.Lock() it takes (helpers on VerifyToken's hit path);
  * InvalidateCache calls verifSched("invalidate:enter") before taking the lock and
    verifSched("invalidate:exit") after the cache was replaced;
  * every time.Now()/time.Since(/time.Until( goes through verifNow() (clock seam),
and a helper file that defines verifSched / VerifSetSchedHook / verifNow /
VerifSetClock. Nothing else in the file is touched, so a mutation or fix of
auth.go is still what gets compiled.

Fails closed (exit 3) when an anchor is missing or ambiguous.
"""
import os
import re
import sys


def die(msg):
    sys.stderr.write("c21_sched: " + msg + "\n")
    sys.exit(3)


def match_close(src, i, what):
    """index of the bracket closing the one at src[i] ('{' or '('), skipping
    string/rune literals and comments."""
    op = src[i]
    cl = {"{": "}", "(": ")"}[op]
    depth, j = 0, i
    in_str = None
    while j < len(src):
        c = src[j]
        if in_str:
            if in_str in "\"'" and c == "\\":
                j += 2
                continue
            if c == in_str:
                in_str = None
        elif c in "\"`'":
            in_str = c
        elif c == "/" and src[j:j + 2] == "//":
            j = src.index("\n", j)
            continue
        elif c == "/" and src[j:j + 2] == "/*":
            j = src.index("*/", j) + 2
            continue
        elif c == op:
            depth += 1
        elif c == cl:
            depth -= 1
            if depth == 0:
                return j
        j += 1
    die("unbalanced %s for %s" % (op, what))


def func_span(src, header_re):
    """(start_of_body, end_of_body) of the single function whose header matches."""
    ms = list(re.finditer(header_re, src, re.M))
    if len(ms) != 1:
        die("expected exactly one match for %r, found %d" % (header_re, len(ms)))
    i = src.index("{", ms[0].end() - 1)
    return i + 1, match_close(src, i, header_re)


def line_start(s, i):
    return s.rfind("\n", 0, i) + 1


def line_end(s, i):
    """index just past the newline that ends the line containing i"""
    return s.index("\n", i) + 1


def indent_at(s, i):
    return re.match(r"[ \t]*", s[line_start(s, i):]).group(0)


def next_code_line(s, i):
    """(start, text) of the first non-blank, non-comment line at or after i"""
    while i < len(s):
        e = s.find("\n", i)
        e = len(s) if e < 0 else e
        t = s[i:e].strip()
        if t and not t.startswith("//"):
            return i, t
        i = e + 1
    return len(s), ""


LOCK_RE = r"^[ \t]*am\.cacheMu\.Lock\(\)[ \t]*$"
QUERY_RE = r"\bam\.db\.Query(?:Context)?\("
VT_HEADER = r"^func \(am \*AuthManager\) VerifyToken\(token string\) \*TokenInfo \{"


def all_funcs(src):
    """name -> (index of the body's '{', index of its '}') for every top-level func"""
    out = {}
    for h in re.finditer(r"^func (?:\([^)]*\) )?(\w+)\(.*\{[ \t]*$", src, re.M):
        o = src.rindex("{", h.start(), h.end())
        out[h.group(1)] = (o, match_close(src, o, "func " + h.group(1)))
    return out


def reachable_from_verify(src):
    """VerifyToken plus the methods of the file it calls (am.X(...)), transitively"""
    funcs = all_funcs(src)
    if "VerifyToken" not in funcs:
        die("no func VerifyToken in auth.go")
    seen, todo = ["VerifyToken"], ["VerifyToken"]
    while todo:
        o, c = funcs[todo.pop()]
        for m in re.finditer(r"\bam\.(\w+)\(", src[o:c]):
            n = m.group(1)
            if n in funcs and n not in seen:
                seen.append(n)
                todo.append(n)
    return seen


def apply_inserts(body, ins):
    for at, text in sorted(ins, reverse=True):
        body = body[:at] + text + body[at:]
    return body


def instrument_query_func(body, name, in_verify):
    """Points around the token query in the function that holds it (VerifyToken
    itself, or a helper it calls): after the query statement and its error
    check, and before every am.cacheMu.Lock() that follows (the cache insert),
    wherever those sit. In a helper, additionally a deferred point that fires
    when the helper returns (rows closed, connection released, result not yet
    handed back to VerifyToken)."""
    qs = list(re.finditer(QUERY_RE, body))
    if len(qs) != 1:
        die("%s: expected exactly one am.db.Query/QueryContext call (the token query), found %d" % (name, len(qs)))
    q = qs[0]
    q_stmt = line_start(body, q.start())
    q_close = match_close(body, q.end() - 1, "token query call")
    pos = line_end(body, q_close)
    ind = indent_at(body, q.start())
    ns, nt = next_code_line(body, pos)
    if re.match(r"if\s+(?:\w+\s*:=.*;\s*)?err\s*!=\s*nil\s*\{", nt):
        pos = line_end(body, match_close(body, body.index("{", ns), "error check after the token query"))
        ns, nt = next_code_line(body, pos)
    if re.match(r"defer\s+\w+\.Close\(\)\s*$", nt):
        pos = line_end(body, ns)
    after_query = pos
    ins = [(after_query, ind + 'verifSched("verify:after-query")\n')]
    nlocks = 0
    for m in re.finditer(LOCK_RE, body, re.M):
        if m.start() > after_query:
            ins.append((line_start(body, m.start()), indent_at(body, m.start()) + 'verifSched("verify:before-insert")\n'))
            nlocks += 1
        elif not in_verify:
            ins.append((line_start(body, m.start()), indent_at(body, m.start()) + 'verifSched("cache-lock:%s")\n' % name))
    if not in_verify:
        first, _ = next_code_line(body, body.index("\n") + 1)
        ins.append((first, indent_at(body, first) + 'defer verifSched("verify:miss-exit")\n'))
    return apply_inserts(body, ins), nlocks, q_stmt


def instrument_miss_and_hit(body, limit, fallback_ok):
    """In VerifyToken: the cache-miss point (after the miss counter if it is
    there exactly once before `limit`, else at `limit` when that is a position
    in VerifyToken) and a point before a write lock on the hit path."""
    miss = [m for m in re.finditer(r"^[ \t]*am\.cacheMisses\.Add\([^)\n]*\)[ \t]*$", body, re.M) if limit is None or m.start() < limit]
    if len(miss) == 1:
        miss_pos, miss_ind = line_end(body, miss[0].start()), indent_at(body, miss[0].start())
    elif fallback_ok and limit is not None:
        miss_pos, miss_ind = limit, indent_at(body, limit)
    else:
        return None
    if "RLock()" not in body[:miss_pos] and "cache[" not in body[:miss_pos]:
        die("VerifyToken: no cache lookup before the miss point (cache-miss landmark missing)")
    ins = [(miss_pos, miss_ind + 'verifSched("verify:after-cache-miss")\n')]
    for m in re.finditer(LOCK_RE, body, re.M):
        if m.start() < miss_pos:
            ins.append((line_start(body, m.start()), indent_at(body, m.start()) + 'verifSched("verify:hit-path-lock")\n'))
    return apply_inserts(body, ins)


def instrument_verify_path(src):
    """Follow the landmarks wherever they are in the file. Returns (src, number
    of points, name of the function holding the token query)."""
    reach = reachable_from_verify(src)
    funcs = all_funcs(src)
    holders = [n for n in reach if re.search(QUERY_RE, src[funcs[n][0]:funcs[n][1]])]
    if len(holders) != 1:
        die("expected exactly one function on VerifyToken's path with an am.db.Query call (the token query), found %s" % holders)
    qf = holders[0]
    in_verify = qf == "VerifyToken"
    o, c = funcs[qf]
    body, nlocks, q_stmt = instrument_query_func(src[o + 1:c], qf, in_verify)
    src = src[:o + 1] + body + src[c:]
    if nlocks == 0:
        # the cache insert may live in yet another helper: it must exist somewhere on the path
        others = [n for n in reach if n not in (qf, "InvalidateCache") and re.search(LOCK_RE, src[funcs[n][0]:funcs[n][1]], re.M)]
        if not others:
            die("no am.cacheMu.Lock() after the token query anywhere on VerifyToken's path (cache insert landmark missing)")
    npoints = 1 + nlocks + (0 if in_verify else 1)

    funcs = all_funcs(src)
    o, c = funcs["VerifyToken"]
    vb = src[o + 1:c]
    limit = None
    if in_verify:
        limit = line_start(vb, re.search(QUERY_RE, vb).start())
    nb = instrument_miss_and_hit(vb, limit, in_verify)
    if nb is None:
        # no miss counter in VerifyToken and the query lives in a helper: the
        # helper's entry is the miss point
        ho, hc = funcs[qf]
        hb = src[ho + 1:hc]
        first, _ = next_code_line(hb, hb.index("\n") + 1)
        hb = hb[:first] + indent_at(hb, first) + 'verifSched("verify:after-cache-miss")\n' + hb[first:]
        src = src[:ho + 1] + hb + src[hc:]
    else:
        src = src[:o + 1] + nb + src[c:]
    return src, npoints + 1, qf


def insert_once(body, anchor_re, text, where, what):
    ms = list(re.finditer(anchor_re, body, re.M))
    if len(ms) != 1:
        die("anchor for %s: expected exactly one match of %r, found %d" % (what, anchor_re, len(ms)))
    m = ms[0]
    indent = re.match(r"[ \t]*", body[body.rfind("\n", 0, m.start()) + 1:]).group(0)
    if where == "after":
        eol = body.index("\n", m.end())
        return body[:eol + 1] + indent + text + "\n" + body[eol + 1:]
    sol = body.rfind("\n", 0, m.start()) + 1
    return body[:sol] + indent + text + "\n" + body[sol:]


HELPER = '''//go:build verif

package auth

import (
	"sync/atomic"
	"time"
)

// verifSchedHook is the schedule-point hook installed by the C21 harness.
var verifSchedHook atomic.Pointer[func(point string)]

func verifSched(point string) {
	if h := verifSchedHook.Load(); h != nil {
		(*h)(point)
	}
}

// VerifSetSchedHook installs (or with nil removes) the schedule-point hook.
func VerifSetSchedHook(f func(point string)) {
	if f == nil {
		verifSchedHook.Store(nil)
		return
	}
	verifSchedHook.Store(&f)
}

// verifClock is the fake clock (unix nanoseconds); 0 means "use the real clock".
var verifClock atomic.Int64

func verifNow() time.Time {
	if v := verifClock.Load(); v != 0 {
		return time.Unix(0, v)
	}
	return time.Now()
}
func verifSince(t time.Time) time.Duration { return verifNow().Sub(t) }
func verifUntil(t time.Time) time.Duration { return t.Sub(verifNow()) }

// VerifSetClock sets the fake clock for this package (zero time = real clock).
func VerifSetClock(t time.Time) {
	if t.IsZero() {
		verifClock.Store(0)
		return
	}
	verifClock.Store(t.UnixNano())
}
'''


def main():
    if len(sys.argv) != 3:
        die("usage: c21_sched.py <repo> <outdir>")
    repo, outdir = sys.argv[1], sys.argv[2]
    rel = "internal/auth/auth.go"
    path = os.path.join(repo, rel)
    if not os.path.exists(path):
        die("missing " + path)
    src = open(path).read()
    if "verifSched(" in src or "verifNow(" in src:
        die("auth.go already contains verif hooks")

    # --- VerifyToken and whatever helper holds the token query / cache insert
    func_span(src, VT_HEADER)  # fail closed if the entry point changed shape
    src, nlocks, qfunc = instrument_verify_path(src)

    # --- InvalidateCache
    b0, b1 = func_span(src, r"^func \(am \*AuthManager\) InvalidateCache\(\) \{")
    body = src[b0:b1]
    body = insert_once(body, r"^[ \t]*am\.cacheMu\.Lock\(\)[ \t]*$", 'verifSched("invalidate:enter")', "before",
                       "InvalidateCache lock")
    body = insert_once(body, r"^[ \t]*am\.cacheMu\.Unlock\(\)[ \t]*$", 'verifSched("invalidate:exit")', "after",
                       "InvalidateCache unlock")
    src = src[:b0] + body + src[b1:]

    # --- every other function of the file that takes the cache write lock
    # (helpers VerifyToken may call between its lookup and its return, e.g. a
    # re-insert on the hit path): a point before each am.cacheMu.Lock()
    nother = 0
    heads = list(re.finditer(r"^func (?:\([^)]*\) )?(\w+)\(.*\{[ \t]*$", src, re.M))
    for h in reversed(heads):
        name = h.group(1)
        if name in ("VerifyToken", "InvalidateCache", qfunc):
            continue
        o = h.end() - 1 - (len(h.group(0)) - len(h.group(0).rstrip()))
        o = src.rindex("{", h.start(), h.end())
        c = match_close(src, o, "func " + name)
        fb = src[o + 1:c]
        ms = list(re.finditer(r"^[ \t]*am\.cacheMu\.Lock\(\)[ \t]*$", fb, re.M))
        for m in reversed(ms):
            at = line_start(fb, m.start())
            fb = fb[:at] + indent_at(fb, m.start()) + 'verifSched("cache-lock:%s")\n' % name + fb[at:]
            nother += 1
        src = src[:o + 1] + fb + src[c:]

    # --- clock seam
    n = 0
    for pat, rep in ((r"\btime\.Now\(\)", "verifNow()"), (r"\btime\.Since\(", "verifSince("), (r"\btime\.Until\(", "verifUntil(")):
        src, k = re.subn(pat, rep, src)
        n += k
    if n == 0:
        die("clock seam: no time.Now()/Since/Until in auth.go")
    b0, b1 = func_span(src, r"^func \(am \*AuthManager\) VerifyToken\(token string\) \*TokenInfo \{")
    if "verifNow()" not in src[b0:b1]:
        die("clock seam: VerifyToken does not read the clock")

    os.makedirs(outdir, exist_ok=True)
    dst = os.path.join(outdir, "c21_auth.go")
    with open(dst, "w") as f:
        f.write(src)
    helper = os.path.join(outdir, "c21_zz_verif_sched.go")
    with open(helper, "w") as f:
        f.write(HELPER)
    print("OVERLAY %s %s" % (rel, dst))
    print("OVERLAY internal/auth/zz_verif_sched.go %s" % helper)
    sys.stderr.write("c21_sched: %d schedule points, %d clock reads rewritten\n" % (2 + nlocks + nother, n))


if __name__ == "__main__":
    main()
