#!/usr/bin/env python3
"""Overlay generator for C21 (kind C: instrumented copy of the CURRENT file).

usage: c21_sched.py <repo> <outdir>

Writes a copy of <repo>/internal/auth/auth.go in which
  * VerifyToken calls verifSched("verify:after-cache-miss") after the cache lookup
    missed, verifSched("verify:after-query") once the token query has returned
    (rows still open), and verifSched("verify:before-insert") right before the
    cache-insert lock is taken;
  * InvalidateCache calls verifSched("invalidate:enter") before taking the lock and
    verifSched("invalidate:exit") after the cache was replaced;
  * every time.Now()/time.Since(/time.Until( goes through verifNow() (clock seam),
and a helper file that defines verifSched / VerifSetSchedHook / verifNow /
VerifSetClock. Nothing else in the file is touched, so a mutation or fix of
auth.go is still what gets compiled.

Fails closed (exit 3) when an anchor is missing or ambiguous.
"""
import os
import re
import sys


def die(msg):
    sys.stderr.write("c21_sched: " + msg + "\n")
    sys.exit(3)


def func_span(src, header_re):
    """(start_of_body, end_of_body) of the single function whose header matches."""
    ms = list(re.finditer(header_re, src, re.M))
    if len(ms) != 1:
        die("expected exactly one match for %r, found %d" % (header_re, len(ms)))
    i = src.index("{", ms[0].end() - 1)
    depth, j = 0, i
    in_str = None
    while j < len(src):
        c = src[j]
        if in_str:
            if in_str == '"' and c == "\\":
                j += 2
                continue
            if c == in_str:
                in_str = None
        elif c in "\"`'":
            in_str = c
        elif c == "/" and src[j:j + 2] == "//":
            j = src.index("\n", j)
            continue
        elif c == "{":
            depth += 1
        elif c == "}":
            depth -= 1
            if depth == 0:
                return i + 1, j
        j += 1
    die("unbalanced braces after %r" % header_re)


def insert_once(body, anchor_re, text, where, what):
    ms = list(re.finditer(anchor_re, body, re.M))
    if len(ms) != 1:
        die("anchor for %s: expected exactly one match of %r, found %d" % (what, anchor_re, len(ms)))
    m = ms[0]
    indent = re.match(r"[ \t]*", body[body.rfind("\n", 0, m.start()) + 1:]).group(0)
    if where == "after":
        eol = body.index("\n", m.end())
        return body[:eol + 1] + indent + text + "\n" + body[eol + 1:]
    sol = body.rfind("\n", 0, m.start()) + 1
    return body[:sol] + indent + text + "\n" + body[sol:]


HELPER = '''//go:build verif

package auth

import (
	"sync/atomic"
	"time"
)

// verifSchedHook is the schedule-point hook installed by the C21 harness.
var verifSchedHook atomic.Pointer[func(point string)]

func verifSched(point string) {
	if h := verifSchedHook.Load(); h != nil {
		(*h)(point)
	}
}

// VerifSetSchedHook installs (or with nil removes) the schedule-point hook.
func VerifSetSchedHook(f func(point string)) {
	if f == nil {
		verifSchedHook.Store(nil)
		return
	}
	verifSchedHook.Store(&f)
}

// verifClock is the fake clock (unix nanoseconds); 0 means "use the real clock".
var verifClock atomic.Int64

func verifNow() time.Time {
	if v := verifClock.Load(); v != 0 {
		return time.Unix(0, v)
	}
	return time.Now()
}
func verifSince(t time.Time) time.Duration { return verifNow().Sub(t) }
func verifUntil(t time.Time) time.Duration { return t.Sub(verifNow()) }

// VerifSetClock sets the fake clock for this package (zero time = real clock).
func VerifSetClock(t time.Time) {
	if t.IsZero() {
		verifClock.Store(0)
		return
	}
	verifClock.Store(t.UnixNano())
}
'''


def main():
    if len(sys.argv) != 3:
        die("usage: c21_sched.py <repo> <outdir>")
    repo, outdir = sys.argv[1], sys.argv[2]
    rel = "internal/auth/auth.go"
    path = os.path.join(repo, rel)
    if not os.path.exists(path):
        die("missing " + path)
    src = open(path).read()
    if "verifSched(" in src or "verifNow(" in src:
        die("auth.go already contains verif hooks")

    # --- VerifyToken
    b0, b1 = func_span(src, r"^func \(am \*AuthManager\) VerifyToken\(token string\) \*TokenInfo \{")
    body = src[b0:b1]
    body = insert_once(body, r"^[ \t]*am\.cacheMisses\.Add\(1\)[ \t]*$", 'verifSched("verify:after-cache-miss")', "after",
                       "cache-lookup miss (am.cacheMisses.Add(1))")
    if len(re.findall(r"am\.db\.Query\(", body)) != 1:
        die("VerifyToken: expected exactly one am.db.Query( call")
    q = body.index("am.db.Query(")
    d = body.find("defer rows.Close()", q)
    if d < 0 or len(re.findall(r"defer rows\.Close\(\)", body)) != 1:
        die("VerifyToken: expected exactly one 'defer rows.Close()' after the token query")
    body = insert_once(body, r"^[ \t]*defer rows\.Close\(\)[ \t]*$", 'verifSched("verify:after-query")', "after",
                       "token query returned (defer rows.Close())")
    if body.index("am.cacheMu.Lock()") < body.index("am.db.Query("):
        die("VerifyToken: cache-insert lock is expected after the token query")
    body = insert_once(body, r"^[ \t]*am\.cacheMu\.Lock\(\)[ \t]*$", 'verifSched("verify:before-insert")', "before",
                       "cache-insert lock (am.cacheMu.Lock())")
    src = src[:b0] + body + src[b1:]

    # --- InvalidateCache
    b0, b1 = func_span(src, r"^func \(am \*AuthManager\) InvalidateCache\(\) \{")
    body = src[b0:b1]
    body = insert_once(body, r"^[ \t]*am\.cacheMu\.Lock\(\)[ \t]*$", 'verifSched("invalidate:enter")', "before",
                       "InvalidateCache lock")
    body = insert_once(body, r"^[ \t]*am\.cacheMu\.Unlock\(\)[ \t]*$", 'verifSched("invalidate:exit")', "after",
                       "InvalidateCache unlock")
    src = src[:b0] + body + src[b1:]

    # --- clock seam
    n = 0
    for pat, rep in ((r"\btime\.Now\(\)", "verifNow()"), (r"\btime\.Since\(", "verifSince("), (r"\btime\.Until\(", "verifUntil(")):
        src, k = re.subn(pat, rep, src)
        n += k
    if n == 0:
        die("clock seam: no time.Now()/Since/Until in auth.go")
    b0, b1 = func_span(src, r"^func \(am \*AuthManager\) VerifyToken\(token string\) \*TokenInfo \{")
    if "verifNow()" not in src[b0:b1]:
        die("clock seam: VerifyToken does not read the clock")

    os.makedirs(outdir, exist_ok=True)
    dst = os.path.join(outdir, "c21_auth.go")
    with open(dst, "w") as f:
        f.write(src)
    helper = os.path.join(outdir, "c21_zz_verif_sched.go")
    with open(helper, "w") as f:
        f.write(HELPER)
    print("OVERLAY %s %s" % (rel, dst))
    print("OVERLAY internal/auth/zz_verif_sched.go %s" % helper)
    sys.stderr.write("c21_sched: 5 schedule points, %d clock reads rewritten\n" % n)


if __name__ == "__main__":
    main()
