#!/usr/bin/env python3
import json,sys,glob,subprocess
pid=sys.argv[1]
base=subprocess.run(['/verif/seedprompt.py',pid],capture_output=True,text=True).stdout.replace('/tmp/seed-%s'%pid,'/tmp/seed3-%s'%pid)
tried=[]
for d in sorted(glob.glob('/tmp/seed-%s/SEED/*/meta.json'%pid))+sorted(glob.glob('/tmp/seed2-%s/SEED/*/meta.json'%pid)):
    try: m=json.load(open(d)); tried.append('- '+m.get('summary','')[:350])
    except Exception: pass
extra="\n\nOther people have ALREADY tried the following changes for this property; do not repeat them or close variants of them — pick different code sites, mechanisms and triggers (other endpoints/paths/fault points/interleavings/configurations, other cooperating sites, rarely used options):\n"+"\n".join(tried)+"\n\nUse `git apply` / `git apply -R` to switch between patched and pristine trees (do NOT use git stash: the stash is shared between worktrees). When cleaning up at the end keep TASK.md (use `git clean -fd -e SEED -e TASK.md`). In meta.json, demo_cmd must be ONLY the go test command (the demo file will be copied into place by the verifier), and packages_tested must be plain package paths like ./internal/api/.\n"
print(base+extra)
